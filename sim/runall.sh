#!/bin/bash
# runall.sh [tier]: runs every registered check one after the other (quick by default) and prints one line each
cd /verif
TIER=${1:-quick}
for p in C01 C02 C03 C04 C05 C06 C07 C08 C09 C10 C11 C12 C13 C15 C16 C17 C18 C19; do
  python3 sim/vcheck.py check $p --tier $TIER > /tmp/runall_$p.log 2>&1; rc=$?
  echo "$p exit=$rc $(tail -1 /tmp/runall_$p.log)"
  grep -E "^VIOLATION|HARNESS-ERROR|REACH-PROBE|NONDETERMINISM|BUILD-TROUBLE" /tmp/runall_$p.log | head -3
done
