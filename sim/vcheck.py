#!/usr/bin/env python3
"""vcheck: driver of the slock deterministic-simulation checks.

  vcheck.py check <Cxx> [--tier quick|thorough] [--seed N] [--runs N] [--budget S]
  vcheck.py replay <file>
  vcheck.py selftest [--runs N]            determinism self-test only

Exit codes: 0 property held on everything explored (KNOWN-FINDING lines possible);
            1 at least one unlisted, replay-verified violation (VIOLATION line printed);
            2 build/instrumentation trouble, watchdog, nondeterminism, unreproducible violation,
              required reach probe at zero - never reported as a violation and never as a pass.
"""
import argparse, copy, hashlib, json, os, shutil, subprocess, sys, tempfile, time, collections

HERE = os.path.dirname(os.path.abspath(__file__))
VERIF = os.path.dirname(HERE)
REPO = os.environ.get("SIM_REPO", "/repo")
KNOWN = os.path.join(VERIF, "known_findings.json")
# a run against a scratch tree (SIM_REPO, used for seeded changes) must not overwrite the evidence of the real tree
EVID_DIR = os.environ.get("SIM_EVIDENCE_DIR", os.path.join(VERIF, "evidence"))
REPLAY_DIR = os.environ.get("SIM_REPLAY_DIR", os.path.join(VERIF, "replays"))

sys.path.insert(0, HERE)
from props import PROPS  # noqa: E402


def log(*a):
    print(*a, file=sys.stderr, flush=True)


def known_env():
    ks = []
    for k in load_known():
        m = k.get("match", {})
        if k.get("status") == "open" and not m.get("detail_contains"):
            for c in ([m["class"]] if m.get("class") else []) + list(m.get("classes", [])):
                ks.append("%s:%s" % (k["property"], c))
                for p in k.get("also_affects", []):
                    ks.append("%s:%s" % (p, c))
    return ",".join(sorted(set(ks)))


def base_env():
    env = dict(os.environ)
    env["SIM_KNOWN"] = known_env()
    env.update(GOFLAGS="-mod=mod", GOPROXY="off", GOSUMDB="off", GOTOOLCHAIN="local", CGO_ENABLED="0")
    gd = env.get("GODEBUG", "")
    if "asynctimerchan" not in gd:
        env["GODEBUG"] = (gd + "," if gd else "") + "asynctimerchan=0"
    return env


class Build:
    def __init__(self):
        base = "/dev/shm" if os.path.isdir("/dev/shm") and os.access("/dev/shm", os.W_OK) else None
        self.dir = tempfile.mkdtemp(prefix="slocksim-build-", dir=base)
        self.worker = os.path.join(self.dir, "simworker")

    def build(self):
        t0 = time.time()
        p = subprocess.run([os.path.join(HERE, "build.sh"), self.dir], env=base_env(), stdout=subprocess.PIPE, stderr=subprocess.STDOUT, text=True)
        self.build_s = time.time() - t0
        self.build_log = p.stdout
        return p.returncode == 0 and os.path.exists(self.worker)

    def cleanup(self):
        shutil.rmtree(self.dir, ignore_errors=True)


def tree_hash():
    h = hashlib.sha256()
    for root in (os.path.join(REPO, d) for d in ("server", "client", "protocol")):
        for dp, dn, fn in os.walk(root):
            dn.sort()
            for f in sorted(fn):
                if f.endswith(".go") and not f.endswith("_test.go"):
                    h.update(f.encode())
                    with open(os.path.join(dp, f), "rb") as fh:
                        h.update(fh.read())
    return h.hexdigest()[:16]


def run_batch(worker, prop, tier, first, count, jobs=16, budget=0, extra_env=None, watchdog=900):
    jobs = int(os.environ.get("VCHECK_JOBS", jobs))
    env = base_env()
    env.update(SIM_PROP=prop, SIM_TIER=tier, SIM_SEEDS="%d:%d" % (first, count), SIM_JOBS=str(jobs), SIM_WATCHDOG_S=str(watchdog))
    if budget:
        env["SIM_BUDGET_S"] = str(int(budget))
    if extra_env:
        env.update(extra_env)
    p = subprocess.Popen([worker, "-test.run", "^TestSimBatch$", "-test.timeout", "0"], env=env, stdout=subprocess.PIPE, stderr=subprocess.STDOUT, text=True)
    results = []
    for line in p.stdout:
        if line.startswith("SIMRESULT "):
            try:
                results.append(json.loads(line[10:]))
            except Exception as e:  # malformed line = harness trouble
                results.append({"outcome": "harness_error", "harness_error": "bad result line: %s" % e, "seed": -1})
    p.wait()
    return results


def run_one(worker, env_extra, timeout=300):
    env = base_env()
    env.update(env_extra)
    try:
        p = subprocess.run([worker, "-test.run", "^TestSimOne$", "-test.timeout", "0"], env=env, stdout=subprocess.PIPE, stderr=subprocess.STDOUT, text=True, timeout=timeout)
    except subprocess.TimeoutExpired:
        return {"outcome": "harness_error", "harness_error": "watchdog"}
    for line in p.stdout.splitlines():
        if line.startswith("SIMRESULT "):
            return json.loads(line[10:])
    if "fatal error: " in p.stdout and "github.com/snower/slock/server." in p.stdout:
        reason = p.stdout.split("fatal error: ", 1)[1].split("\n", 1)[0].strip()
        cls = "child_died_" + reason.replace(" ", "_")
        prop = env_extra.get("SIM_PROP") or env_extra.get("_PROP", "")
        return {"outcome": "violation", "hash": "fatal:" + cls, "prop": prop,
                "violations": [{"prop": prop, "class": cls, "detail": "the simulation worker was killed by the Go runtime inside the code under test: fatal error: " + reason}]}
    return {"outcome": "harness_error", "harness_error": "no result: " + p.stdout[-1500:]}


def run_scenario(worker, scenario, tmpdir, tag="s"):
    path = os.path.join(tmpdir, "%s-%d.json" % (tag, os.getpid()))
    with open(path, "w") as f:
        json.dump({"scenario": scenario}, f)
    return run_one(worker, {"SIM_SCENARIO": path, "_PROP": scenario.get("prop", "")})


def vclass(res, prop):
    for v in res.get("violations") or []:
        if v["prop"] == prop:
            return v["class"]
    return None


# ----------------------------------------------------------------------------------------------
# minimisation: delta debugging over every list of objects inside the scenario body

def list_paths(node, path=()):
    out = []
    if isinstance(node, dict):
        for k in sorted(node):
            out += list_paths(node[k], path + (k,))
    elif isinstance(node, list):
        if node and all(isinstance(x, dict) for x in node):
            out.append(path)
            for i, x in enumerate(node):
                out += list_paths(x, path + (i,))
        elif node and path and path[-1] == "script":
            out.append(path)  # a recorded schedule (list of decisions): shortened like any other list
    return out


def get_path(node, path):
    for p in path:
        node = node[p]
    return node


def minimise(worker, scenario, prop, cls, tmpdir, budget_s=90):
    t0 = time.time()
    best = copy.deepcopy(scenario)
    tries = 0

    def fails(sc):
        nonlocal tries
        tries += 1
        r = run_scenario(worker, sc, tmpdir, "min")
        return r.get("outcome") == "violation" and vclass(r, prop) == cls

    def body_of(sc):
        return sc["body"]

    progress = True
    while progress and time.time() - t0 < budget_s:
        progress = False
        paths = list_paths(body_of(best))
        # outermost lists first, then inner ones
        paths.sort(key=len)
        for path in paths:
            try:
                lst = get_path(body_of(best), path)
            except (KeyError, IndexError):
                continue
            n = len(lst)
            chunk = max(n // 2, 1)
            while chunk >= 1 and time.time() - t0 < budget_s:
                i = 0
                while i < len(lst) and time.time() - t0 < budget_s:
                    cand = copy.deepcopy(best)
                    cl = get_path(body_of(cand), path)
                    del cl[i:i + chunk]
                    if fails(cand):
                        best = cand
                        lst = get_path(body_of(best), path)
                        progress = True
                    else:
                        i += chunk
                if chunk == 1:
                    break
                chunk = max(chunk // 2, 1)
    # simpler schedule: run-to-block with the same seed
    if best.get("sched", {}).get("strategy") != "rtb":
        cand = copy.deepcopy(best)
        cand["sched"] = {"seed": best["sched"]["seed"], "strategy": "rtb"}
        if fails(cand):
            best = cand
    # drop network perturbation
    if best.get("net"):
        cand = copy.deepcopy(best)
        cand["net"] = {}
        if fails(cand):
            best = cand
    return best, tries


def count_items(sc):
    n = 0
    for path in list_paths(sc["body"]):
        n += len(get_path(sc["body"], path))
    return n


# ----------------------------------------------------------------------------------------------

def load_known():
    if not os.path.exists(KNOWN):
        return []
    with open(KNOWN) as f:
        return json.load(f).get("findings", [])


def known_match(prop, cls, detail, known):
    for k in known:
        if k.get("status") != "open" or k.get("property") != prop:
            continue
        m = k.get("match", {})
        if m.get("class") and m["class"] != cls:
            continue
        if m.get("classes") and cls not in m["classes"]:
            continue
        if m.get("detail_contains") and m["detail_contains"] not in detail:
            continue
        return k
    return None


def selftest(worker, prop, tier, seeds, jobs=16):
    """Determinism self-test: same seeds, different GOMAXPROCS and process runs; hashes must agree."""
    ref = None
    bad = []
    rogue = 0
    n = 0
    for gmp in ("1", "4", "16"):
        for rep in range(2):
            res = []
            for first, count in seeds:
                res += run_batch(worker, prop, tier, first, count, jobs=jobs, extra_env={"GOMAXPROCS": gmp, "SIM_ROGUE": "1" if (gmp == "4" and rep == 0) else ""})
            m = {r["seed"]: (r.get("hash"), r.get("outcome"), r.get("steps")) for r in res}
            rogue += sum(r.get("rogue", 0) for r in res)
            n += len(res)
            if ref is None:
                ref = m
            else:
                for s in ref:
                    if m.get(s) != ref[s]:
                        bad.append((s, gmp, ref[s], m.get(s)))
    return {"runs": n, "mismatches": bad[:10], "n_mismatch": len(bad), "rogue": rogue}


def cmd_check(args):
    prop = args.prop
    if prop not in PROPS:
        log("unknown property", prop)
        return 2
    P = PROPS[prop]
    tier = args.tier or os.environ.get("VERIF_TIER") or "quick"
    seed = args.seed if args.seed is not None else int(os.environ.get("VERIF_SEED", P.get("seed", 1000)))
    t0 = time.time()
    b = Build()
    try:
        if not b.build():
            log(b.build_log[-4000:])
            log("BUILD-TROUBLE: instrumented build failed (exit 2; this is not a verdict)")
            return 2
        runs = args.runs or P[tier]["runs"]
        budget = args.budget if args.budget is not None else P[tier].get("budget", 0)
        first = seed * 1000003 % (1 << 40) if tier == "thorough" else seed * 1000
        results = run_batch(b.worker, prop, tier, first, runs, budget=budget)
        return report(b, prop, P, tier, seed, first, results, t0, args)
    finally:
        b.cleanup()


def report(b, prop, P, tier, seed, first, results, t0, args):
    known = load_known()
    oc = collections.Counter(r.get("outcome") for r in results)
    probes = collections.Counter()
    faults = collections.Counter()
    kinds = collections.Counter()
    hashes = set()
    sigs = set()
    nontrivial = set()
    sim_s = steps = switches = points = 0
    for r in results:
        kinds[r.get("kind")] += 1
        for k, v in (r.get("probes") or {}).items():
            probes[k] += v
        for k, v in (r.get("faults") or {}).items():
            faults[k] += v
        if r.get("hash"):
            hashes.add(r["hash"])
        if r.get("state_sig"):
            sigs.add(r["state_sig"])
        if r.get("nontrivial") and r.get("outcome") == "ok":
            nontrivial.add(r.get("hash"))
        sim_s += r.get("sim_s", 0)
        steps += r.get("steps", 0)
        switches += r.get("switches", 0)
        points += r.get("points", 0)
    exit_code = 0
    lines = []
    harness_errors = [r for r in results if r.get("outcome") == "harness_error"]
    if harness_errors:
        exit_code = 2
        for r in harness_errors[:5]:
            log("HARNESS-ERROR seed=%s: %s" % (r.get("seed"), (r.get("harness_error") or "")[:600]))
    # violations: group by class, handle the first seed of each class
    byclass = collections.OrderedDict()
    for r in sorted(results, key=lambda r: r.get("seed", 0)):
        if r.get("outcome") == "violation":
            c = vclass(r, prop)
            byclass.setdefault(c, []).append(r)
    vio_info = []
    known_hits = collections.Counter()
    for r in results:
        for v in r.get("known") or []:
            if v["prop"] == prop:
                k = known_match(prop, v["class"], v["detail"], known)
                if k is not None:
                    known_hits[k["id"]] += 1
    tmpdir = b.dir
    for cls, rs in byclass.items():
        r0 = rs[0]
        detail = [v for v in r0["violations"] if v["prop"] == prop][0]["detail"]
        k = known_match(prop, cls, detail, known)
        if k is not None:
            known_hits[k["id"]] += len(rs)
            continue
        # obtain the explicit scenario of the failing seed
        scen_path = os.path.join(tmpdir, "scen-%s.json" % r0["seed"])
        rr = run_one(b.worker, {"SIM_PROP": prop, "SIM_TIER": tier, "VERIF_SEED": str(r0["seed"]), "SIM_EMIT_SCENARIO": scen_path})
        if rr.get("outcome") != "violation" or vclass(rr, prop) != cls or not os.path.exists(scen_path):
            log("UNREPRODUCIBLE: seed %s class %s did not fail again from its seed" % (r0["seed"], cls))
            exit_code = 2
            continue
        scenario = json.load(open(scen_path))
        # kinds whose driver takes its decisions (delivery order, losses) from the run's PRNG report the
        # decisions of a failing run: the replay file then carries the schedule itself, which the
        # minimiser can shorten
        script = (rr.get("sample") or {}).get("script") if isinstance(rr.get("sample"), dict) else None
        if script and isinstance(scenario.get("body"), dict) and "script" not in scenario["body"]:
            cand = copy.deepcopy(scenario)
            cand["body"]["script"] = script
            rs_ = run_scenario(b.worker, cand, tmpdir, "script")
            if rs_.get("outcome") == "violation" and vclass(rs_, prop) == cls:
                scenario = cand
        before = count_items(scenario)
        mini, tries = minimise(b.worker, scenario, prop, cls, tmpdir, budget_s=args.min_budget)
        # replay-verify twice in fresh processes
        v1 = run_scenario(b.worker, mini, tmpdir, "rv1")
        v2 = run_scenario(b.worker, mini, tmpdir, "rv2")
        if not (v1.get("outcome") == "violation" and vclass(v1, prop) == cls and v1.get("hash") == v2.get("hash") and vclass(v2, prop) == cls):
            log("UNREPRODUCIBLE: minimised scenario of seed %s class %s does not replay identically" % (r0["seed"], cls))
            exit_code = 2
            continue
        vd = [v for v in v1["violations"] if v["prop"] == prop][0]
        os.makedirs(REPLAY_DIR, exist_ok=True)
        hsh = hashlib.sha256(json.dumps(mini, sort_keys=True).encode()).hexdigest()[:10]
        rpath = os.path.join(REPLAY_DIR, "%s-%s-%s.json" % (prop, r0["seed"], hsh))
        with open(rpath, "w") as f:
            json.dump({"property": prop, "seed": r0["seed"], "tier": tier, "tree_hash": tree_hash(),
                       "expect": {"class": cls, "hash": v1.get("hash"), "detail": vd["detail"]},
                       "minimised": {"items_before": before, "items_after": count_items(mini), "candidates_tried": tries},
                       "seeds_in_class": [r["seed"] for r in rs][:50],
                       "scenario": mini}, f, indent=1)
        lines.append("VIOLATION property=%s replay=%s" % (prop, rpath))
        log("  class=%s seed=%s: %s" % (cls, r0["seed"], vd["detail"][:500]))
        vio_info.append({"class": cls, "seed": r0["seed"], "replay": rpath, "count": len(rs)})
        exit_code = 1  # a replay-verified violation outranks harness trouble in the same batch
    for k in known:
        if k.get("status") == "open" and k.get("property") == prop:
            # a listed finding is reported on every run of the check
            print("KNOWN-FINDING: property=%s %s [%s; hit by %d runs of this batch]" % (prop, k.get("what", k.get("id")), k["id"], known_hits.get(k["id"], 0)))
    # required reach probes
    if vio_info:
        exit_code = 1  # ... and trouble with another class of the same batch (order of the classes must not matter)
    if exit_code == 1 and harness_errors:
        log("note: %d runs of this batch also ended in harness errors (not verdicts)" % len(harness_errors))
    for name in P.get("required_probes", []):
        if probes.get(name, 0) == 0 and exit_code == 0:
            log("REACH-PROBE-ZERO: %s never fired in this batch (exit 2; the check cannot vouch for the property)" % name)
            exit_code = 2
    # determinism self-test
    st = None
    if exit_code == 0 and not args.no_selftest:
        n = P[tier].get("selftest", 40)
        st = selftest(b.worker, prop, tier, [(first, n)])
        if st["n_mismatch"] or st["rogue"]:
            log("NONDETERMINISM: %s" % json.dumps(st)[:1500])
            exit_code = 2
    wall = time.time() - t0
    n_ok = oc.get("ok", 0)
    samples = []
    for r in results:
        if r.get("sample") is not None and len(samples) < 3:
            samples.append({"seed": r["seed"], "kind": r.get("kind"), "case": r["sample"]})
    if not samples:
        # write out the explicit scenario of the first seeds
        for r in sorted(results, key=lambda r: r.get("seed", 0))[:2]:
            sp = os.path.join(tmpdir, "sample-%s.json" % r["seed"])
            run_one(b.worker, {"SIM_PROP": prop, "SIM_TIER": tier, "VERIF_SEED": str(r["seed"]), "SIM_EMIT_SCENARIO": sp})
            if os.path.exists(sp):
                sc = json.load(open(sp))
                samples.append({"seed": r["seed"], "kind": sc.get("kind"), "scenario": truncate(sc)})
    ev = {
        "property_id": prop, "tier": tier, "seed": seed, "level": P["level"],
        "coverage": {
            "evaluations": len(results),
            "distinct_nontrivial": len(nontrivial),
            "rule": P["rule"],
            "samples": samples,
            "runs_ok": n_ok, "runs_violation": oc.get("violation", 0), "runs_harness_error": oc.get("harness_error", 0),
            "first_seed": first, "last_seed": first + len(results) - 1 if results else first,
            "kinds": dict(kinds),
            "simulated_seconds": round(sim_s, 1), "dispatch_steps": steps, "context_switches": switches, "preemption_points": points,
            "runs_per_hour": int(len(results) / max(wall - b.build_s, 0.001) * 3600),
            "distinct_run_hashes": len(hashes), "distinct_state_signatures": len(sigs),
            "faults_fired": dict(faults), "reach_probes": dict(probes),
            "real_vs_stub": {"real": ["server package (instrumented copy of the working tree)", "protocol package", "client package", "start-up and recovery paths", "accept loop", "AOF file format on tmpfs files"]
                             + (["kind election: ArbiterManager, ArbiterVoter, the vote/proposal/commit handlers, ArbiterClient.Request and ArbiterStore (meta.pb) only; no server, lock engine or replication runs in that kind"] if kinds.get("election") else []),
                             "stub": ["TCP network (snet)", "OS scheduler (ssched)", "clocks and timers (synctest fake clock + stime)", "math/rand and crypto/rand", "os/signal", "process kill"]
                             + (["kind election: the connections between members (a connection object owned by the harness: each request and reply is delivered, reordered or lost by the seeded driver); member restart = a new ArbiterManager loaded from meta.pb"] if kinds.get("election") else [])},
            "determinism_selftest": st,
            "known_findings_hit": dict(known_hits),
            "violations": vio_info,
            "build_s": round(b.build_s, 1),
            "tree_hash": tree_hash(),
        },
        "assumptions": P.get("assumptions", []) + [
            "interleavings are explored at shim-operation granularity (mutex, atomic, channel, timer, socket, file operations)",
            "go1.26.8 testing/synctest fake clock and durable-block detection; asynctimerchan=0",
            "simbuild's syntax-directed rewrites preserve the semantics of the code under test"],
        "wall_s": round(wall, 2),
        "violations": len(vio_info),
    }
    os.makedirs(EVID_DIR, exist_ok=True)
    with open(os.path.join(EVID_DIR, prop + ".json"), "w") as f:
        json.dump(ev, f, indent=1)
    for l in lines:
        print(l)
    print("%s %s: runs=%d ok=%d violation=%d harness_error=%d known=%s nontrivial=%d wall=%.1fs exit=%d" % (
        prop, tier, len(results), n_ok, oc.get("violation", 0), oc.get("harness_error", 0), dict(known_hits), len(nontrivial), wall, exit_code))
    return exit_code


def truncate(sc, limit=6000):
    s = json.dumps(sc)
    if len(s) <= limit:
        return sc
    return {"truncated_json": s[:limit] + "..."}


def cmd_replay(args):
    with open(args.file) as f:
        rf = json.load(f)
    prop = rf["property"]
    b = Build()
    try:
        if not b.build():
            log(b.build_log[-3000:])
            return 2
        r = run_scenario(b.worker, rf["scenario"], b.dir, "replay")
        cls = vclass(r, prop)
        exp = rf.get("expect", {})
        print(json.dumps({"outcome": r.get("outcome"), "class": cls, "hash": r.get("hash"), "expected": exp,
                          "violations": r.get("violations"), "harness_error": r.get("harness_error")}, indent=1))
        if r.get("outcome") == "violation" and cls == exp.get("class"):
            print("VIOLATION property=%s replay=%s" % (prop, os.path.abspath(args.file)))
            if exp.get("hash") and r.get("hash") != exp.get("hash"):
                log("note: same violation class, different event-log hash (tree changed since the replay file was written?)")
            return 1
        if r.get("outcome") == "harness_error":
            return 2
        return 0
    finally:
        b.cleanup()


def cmd_selftest(args):
    b = Build()
    try:
        if not b.build():
            log(b.build_log[-3000:])
            return 2
        bad = 0
        for prop in (args.props.split(",") if args.props else sorted(PROPS)):
            st = selftest(b.worker, prop, "quick", [(7000, args.runs)])
            print(prop, json.dumps(st))
            if st["n_mismatch"] or st["rogue"]:
                bad += 1
        return 2 if bad else 0
    finally:
        b.cleanup()


def main():
    ap = argparse.ArgumentParser()
    sub = ap.add_subparsers(dest="cmd", required=True)
    c = sub.add_parser("check")
    c.add_argument("prop")
    c.add_argument("--tier", default=None)
    c.add_argument("--seed", type=int, default=None)
    c.add_argument("--runs", type=int, default=None)
    c.add_argument("--budget", type=int, default=None)
    c.add_argument("--min-budget", dest="min_budget", type=int, default=90)
    c.add_argument("--no-selftest", action="store_true")
    r = sub.add_parser("replay")
    r.add_argument("file")
    s = sub.add_parser("selftest")
    s.add_argument("--runs", type=int, default=40)
    s.add_argument("--props", default="")
    args = ap.parse_args()
    if args.cmd == "check":
        sys.exit(cmd_check(args))
    if args.cmd == "replay":
        sys.exit(cmd_replay(args))
    if args.cmd == "selftest":
        sys.exit(cmd_selftest(args))


if __name__ == "__main__":
    main()
