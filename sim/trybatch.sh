#!/bin/bash
# trybatch.sh <builddir> <prop> <first> <count> [kind]  -- developer helper: run a batch on an existing build and summarise
D=$1; P=$2; F=$3; C=$4; K=${5:-}
cd $D && SIM_KNOWN=$(python3 -c "
import sys; sys.path.insert(0,'/verif/sim'); import vcheck; print(vcheck.known_env())") SIM_KIND=$K SIM_PROP=$P SIM_TIER=${TIER:-quick} SIM_SEEDS=$F:$C SIM_JOBS=${JOBS:-12} GODEBUG=asynctimerchan=0 ./simworker -test.run '^TestSimBatch$' -test.timeout 0 2>&1 | grep SIMRESULT | python3 -c "
import sys,json,collections
oc=collections.Counter();cls=collections.Counter();ex=[];pr=collections.Counter();kn=collections.Counter();kinds=collections.Counter()
for l in sys.stdin:
    r=json.loads(l[10:]); oc[r['outcome']]+=1; kinds[r.get('kind')]+=1
    for k,v in (r.get('probes') or {}).items(): pr[k]+=v
    for v in r.get('known') or []: kn[v['prop']+':'+v['class']]+=1
    for v in r.get('violations') or []:
        cls[v['prop']+':'+v['class']]+=1
        if len(ex)<int('${NEX:-6}'): ex.append((r['seed'],r['kind'],v['class'],v['detail'][:700]))
    if r.get('harness_error') and len(ex)<8: ex.append((r['seed'],r['kind'],'HARNESS',r['harness_error'][:500]))
print(dict(oc)); print('kinds',dict(kinds)); print('viol',dict(cls)); print('known',dict(kn))
print('probes',{k:v for k,v in sorted(pr.items())})
for e in ex: print(e)"
