#!/bin/bash
# snapshot.sh: copies the verifier (sim/ and known_findings.json) to a scratch directory and prints
# its path; SIM_SNAPSHOT=<path> makes seedtest.sh / reseed.sh run the checks from there, so that
# sim/ can be edited while they run. Remove the directory when done.
D=$(mktemp -d /dev/shm/verifsnap-XXXXXX)
cp -r /verif/sim "$D/sim"
cp /verif/known_findings.json "$D/"
echo "$D"
