#!/bin/bash
# setup: warm the go1.26.8 build cache (standard library + the instrumented worker) so that the
# first check does not pay for it. Builds from files on disk only; leaves nothing behind.
set -e
HERE=$(cd "$(dirname "$0")" && pwd)
D=$(mktemp -d /dev/shm/slocksim-setup-XXXXXX 2>/dev/null || mktemp -d)
trap 'rm -rf "$D"' EXIT
"$HERE/build.sh" "$D" >/dev/null
echo "setup ok"
