#!/bin/bash
# build.sh <outdir>: instrument a scratch copy of /repo's current working tree and build the
# simulation worker (a go test binary of package server with the harness added).
# Exit 0 = built; anything else = build trouble (the caller exits 2, never a verdict).
set -euo pipefail
OUT=${1:?usage: build.sh <outdir>}
REPO=${SIM_REPO:-/repo}
HERE=$(cd "$(dirname "$0")" && pwd)
export GOFLAGS=-mod=mod GOPROXY=off GOSUMDB=off GOTOOLCHAIN=local CGO_ENABLED=0
GO126ROOT=$(go1.26.8 env GOROOT)
export PATH="$GO126ROOT/bin:$PATH" GOROOT="$GO126ROOT"
mkdir -p "$OUT"
SCR="$OUT/slock"
rm -rf "$SCR"
mkdir -p "$SCR"
rsync -a --exclude .git --exclude '*_test.go' --exclude 'append.aof*' --exclude 'rewrite.aof*' --exclude data --exclude docker "$REPO"/ "$SCR"/
cp -r "$HERE/simrt" "$SCR/simrt"
cp "$HERE"/harness/*.go "$SCR/server/"
if [ -d "$HERE/harness_client" ]; then cp "$HERE"/harness_client/*.go "$SCR/client/" 2>/dev/null || true; fi
(cd "$HERE/simbuild" && go build -o "$OUT/simbuild" .)
(cd "$SCR" && "$OUT/simbuild" "$SCR" protocol server client)
(cd "$SCR" && go vet -vettool=/bin/true ./server >/dev/null 2>&1 || true)
(cd "$SCR" && go test -c -o "$OUT/simworker" ./server)
echo "built $OUT/simworker"
