#!/usr/bin/env python3
"""Refresh the generated tables in DESIGN.md (between <!-- BEGIN x --> / <!-- END x --> markers)
from known_findings.json and seeded/*/meta.json."""
import glob
import json
import os
import re

ROOT = os.path.dirname(os.path.dirname(os.path.abspath(__file__)))


def findings_table():
    d = json.load(open(os.path.join(ROOT, "known_findings.json")))
    rows = ["| id | property | status | commit in /repo | what (class of the violation) |", "|---|---|---|---|---|"]
    for f in d["findings"]:
        m = f.get("match", {})
        cls = m.get("class") or ", ".join(m.get("classes", [])[:3]) + (" …" if len(m.get("classes", [])) > 3 else "")
        what = f["what"].split(" (")[0]
        if len(what) > 260:
            what = what[:257] + "…"
        rows.append("| %s | %s | %s | %s | %s (`%s`) |" % (f["id"], f["property"], f["status"], f.get("commit", "–"), what.replace("|", "/"), cls))
    return "\n".join(rows)


def seeded_table():
    rows = ["| seeded change | property | confirmed (compiles, tests pass, demo fails only with it) | check result | first violation reported |", "|---|---|---|---|---|"]
    for p in sorted(glob.glob(os.path.join(ROOT, "seeded", "*", "meta.json"))):
        m = json.load(open(p))
        name = os.path.basename(os.path.dirname(p))
        fv = re.sub(r"\s+", " ", m.get("first_violation", ""))
        mm = re.search(r"class=(\S+)", fv)
        last = ("`" + mm.group(1) + "`") if mm else ""
        if m.get("note") and m.get("check_result") != "detected":
            last = m["note"].split(":")[0]
        rows.append("| %s | %s | %s | %s | %s |" % (name, m["property"], "yes" if m.get("confirmed") else "no", m.get("check_result", ""), last))
    return "\n".join(rows)


def main():
    p = os.path.join(ROOT, "DESIGN.md")
    s = open(p).read()
    for name, fn in (("FINDINGS", findings_table), ("SEEDED", seeded_table)):
        b, e = "<!-- BEGIN %s -->" % name, "<!-- END %s -->" % name
        if b in s and e in s:
            s = s[: s.index(b) + len(b)] + "\n" + fn() + "\n" + s[s.index(e):]
    open(p, "w").write(s)


if __name__ == "__main__":
    main()
