module simbuild

go 1.21
