// simbuild: build-time instrumenter of a scratch copy of snower/slock.
//
//	simbuild <root> [pkgdir ...]        (default package dirs: protocol server client)
//
// For every non-generated Go file of the listed package directories (harness files copied in
// beforehand included) it
//   - re-points the imports of sync, sync/atomic, time, net, os, os/signal, math/rand and
//     crypto/rand to the simulator's same-API shim packages (the local name is kept),
//   - rewrites go statements, channel sends/receives, selects, range-over-channel and
//     range-over-map into calls of the simulator's scheduler package.
//
// Exit status: 0 ok, 2 on anything it cannot handle (fail closed; never a verdict).
package main

import (
	"bytes"
	"fmt"
	"go/ast"
	"go/importer"
	"go/parser"
	"go/printer"
	"go/token"
	"go/types"
	"os"
	"path/filepath"
	"sort"
	"strconv"
	"strings"
)

const base = "github.com/snower/slock/simrt/"

var swaps = map[string][2]string{
	"sync":            {"sync", base + "ssync"},
	"sync/atomic":     {"atomic", base + "satomic"},
	"time":            {"time", base + "stime"},
	"net":             {"net", base + "snet"},
	"os":              {"os", base + "sos"},
	"os/signal":       {"signal", base + "ssignal"},
	"math/rand":       {"rand", base + "srand"},
	"crypto/rand":     {"rand", base + "scrand"},
	"runtime/metrics": {"metrics", base + "smetrics"},
}

type stats struct{ gos, sends, recvs, selects, multisel, maprange, chanrange, unknownRange, files int }

var st stats
var failures []string

func fail(format string, a ...any) { failures = append(failures, fmt.Sprintf(format, a...)) }

type lenientImporter struct {
	src   types.Importer
	local map[string]*types.Package
}

func (li *lenientImporter) Import(path string) (*types.Package, error) {
	return li.ImportFrom(path, "", 0)
}
func (li *lenientImporter) ImportFrom(path, dir string, mode types.ImportMode) (*types.Package, error) {
	if p, ok := li.local[path]; ok {
		return p, nil
	}
	if from, ok := li.src.(types.ImporterFrom); ok {
		if p, err := from.ImportFrom(path, dir, mode); err == nil {
			return p, nil
		}
	}
	name := path
	if i := strings.LastIndex(path, "/"); i >= 0 {
		name = path[i+1:]
	}
	p := types.NewPackage(path, name)
	p.MarkComplete()
	li.local[path] = p
	return p, nil
}

func main() {
	if len(os.Args) < 2 {
		fmt.Fprintln(os.Stderr, "usage: simbuild <root> [pkgdir ...]")
		os.Exit(2)
	}
	root := os.Args[1]
	pkgs := os.Args[2:]
	if len(pkgs) == 0 {
		pkgs = []string{"protocol", "server", "client"}
	}
	fset := token.NewFileSet()
	li := &lenientImporter{src: importer.ForCompiler(fset, "source", nil), local: map[string]*types.Package{}}
	for _, pkg := range pkgs {
		dir := filepath.Join(root, pkg)
		names, _ := filepath.Glob(filepath.Join(dir, "*.go"))
		sort.Strings(names)
		var files []*ast.File
		var paths []string
		for _, fn := range names {
			src, err := os.ReadFile(fn)
			if err != nil {
				fail("%v", err)
				continue
			}
			if bytes.Contains(src[:min(len(src), 300)], []byte("Code generated")) {
				continue
			}
			f, err := parser.ParseFile(fset, fn, src, parser.ParseComments)
			if err != nil {
				fail("parse %s: %v", fn, err)
				continue
			}
			files = append(files, f)
			paths = append(paths, fn)
		}
		if len(files) == 0 {
			continue
		}
		info := &types.Info{Types: map[ast.Expr]types.TypeAndValue{}}
		conf := types.Config{Importer: li, Error: func(error) {}, FakeImportC: true}
		tp, _ := conf.Check("github.com/snower/slock/"+pkg, fset, files, info)
		if tp != nil {
			li.local["github.com/snower/slock/"+pkg] = tp
		}
		for i, f := range files {
			rw := &rewriter{fset: fset, info: info, file: f, path: paths[i]}
			rw.run()
			var buf bytes.Buffer
			if err := printer.Fprint(&buf, fset, f); err != nil {
				fail("print %s: %v", paths[i], err)
				continue
			}
			if err := os.WriteFile(paths[i], buf.Bytes(), 0644); err != nil {
				fail("%v", err)
			}
			st.files++
		}
	}
	fmt.Printf("simbuild: files=%d go=%d send=%d recv=%d select=%d (multi=%d) maprange=%d chanrange=%d unknownrange=%d\n",
		st.files, st.gos, st.sends, st.recvs, st.selects, st.multisel, st.maprange, st.chanrange, st.unknownRange)
	if len(failures) > 0 {
		for _, f := range failures {
			fmt.Fprintln(os.Stderr, "simbuild: FAIL:", f)
		}
		os.Exit(2)
	}
}

func sel(pkg, name string) ast.Expr {
	return &ast.SelectorExpr{X: ast.NewIdent(pkg), Sel: ast.NewIdent(name)}
}
func call(fn ast.Expr, args ...ast.Expr) *ast.CallExpr { return &ast.CallExpr{Fun: fn, Args: args} }
func exprStmt(e ast.Expr) ast.Stmt                     { return &ast.ExprStmt{X: e} }
func define(lhs string, rhs ast.Expr) ast.Stmt {
	return &ast.AssignStmt{Lhs: []ast.Expr{ast.NewIdent(lhs)}, Tok: token.DEFINE, Rhs: []ast.Expr{rhs}}
}
func intLit(i int) ast.Expr { return &ast.BasicLit{Kind: token.INT, Value: strconv.Itoa(i)} }

type rewriter struct {
	fset      *token.FileSet
	info      *types.Info
	file      *ast.File
	path      string
	needSched bool
	n         int
}

func (rw *rewriter) uniq(p string) string {
	rw.n++
	return fmt.Sprintf("_sim%s%d", p, rw.n)
}

func (rw *rewriter) pos(n ast.Node) string { return rw.fset.Position(n.Pos()).String() }

func (rw *rewriter) run() {
	f := rw.file
	for _, imp := range f.Imports {
		p, _ := strconv.Unquote(imp.Path.Value)
		if imp.Name != nil && strings.HasPrefix(imp.Name.Name, "real") {
			continue
		}
		if sw, ok := swaps[p]; ok {
			if imp.Name == nil {
				imp.Name = ast.NewIdent(sw[0])
			}
			imp.Path.Value = strconv.Quote(sw[1])
		}
		if p == base+"ssched" {
			rw.needSched = false
		}
	}
	hasSched := false
	for _, imp := range f.Imports {
		if p, _ := strconv.Unquote(imp.Path.Value); p == base+"ssched" {
			hasSched = true
		}
	}
	for _, d := range f.Decls {
		switch x := d.(type) {
		case *ast.FuncDecl:
			if x.Body != nil {
				rw.block(x.Body)
			}
		case *ast.GenDecl:
			for _, sp := range x.Specs {
				if vs, ok := sp.(*ast.ValueSpec); ok {
					rw.exprs(vs.Values)
				}
			}
		}
	}
	if rw.needSched && !hasSched {
		spec := &ast.ImportSpec{Name: ast.NewIdent("ssched"), Path: &ast.BasicLit{Kind: token.STRING, Value: strconv.Quote(base + "ssched")}}
		gd := &ast.GenDecl{Tok: token.IMPORT, Specs: []ast.Spec{spec}}
		f.Decls = append([]ast.Decl{gd}, f.Decls...)
	}
}

func (rw *rewriter) block(b *ast.BlockStmt) {
	if b == nil {
		return
	}
	rw.stmts(b.List)
}
func (rw *rewriter) stmts(l []ast.Stmt) {
	for i, s := range l {
		l[i] = rw.stmt(s)
	}
}
func (rw *rewriter) exprs(es []ast.Expr) {
	for i, e := range es {
		es[i] = rw.expr(e)
	}
}

func (rw *rewriter) expr(e ast.Expr) ast.Expr {
	switch x := e.(type) {
	case nil:
		return nil
	case *ast.UnaryExpr:
		x.X = rw.expr(x.X)
		if x.Op == token.ARROW {
			st.recvs++
			rw.needSched = true
			return call(sel("ssched", "Recv"), x.X)
		}
		return x
	case *ast.BinaryExpr:
		x.X, x.Y = rw.expr(x.X), rw.expr(x.Y)
	case *ast.CallExpr:
		x.Fun = rw.expr(x.Fun)
		rw.exprs(x.Args)
	case *ast.ParenExpr:
		x.X = rw.expr(x.X)
	case *ast.SelectorExpr:
		x.X = rw.expr(x.X)
	case *ast.IndexExpr:
		x.X, x.Index = rw.expr(x.X), rw.expr(x.Index)
	case *ast.SliceExpr:
		x.X, x.Low, x.High, x.Max = rw.expr(x.X), rw.expr(x.Low), rw.expr(x.High), rw.expr(x.Max)
	case *ast.StarExpr:
		x.X = rw.expr(x.X)
	case *ast.TypeAssertExpr:
		x.X = rw.expr(x.X)
	case *ast.KeyValueExpr:
		x.Value = rw.expr(x.Value)
	case *ast.CompositeLit:
		rw.exprs(x.Elts)
	case *ast.FuncLit:
		rw.block(x.Body)
	}
	return e
}

func (rw *rewriter) typeOf(e ast.Expr) types.Type {
	if tv, ok := rw.info.Types[e]; ok && tv.Type != nil {
		if b, ok := tv.Type.(*types.Basic); ok && b.Kind() == types.Invalid {
			return nil
		}
		return tv.Type
	}
	return nil
}

func (rw *rewriter) goStmt(x *ast.GoStmt) ast.Stmt {
	st.gos++
	rw.needSched = true
	// does the callee return values? then wrap it
	hasResults := false
	if t := rw.typeOf(x.Call.Fun); t != nil {
		if sig, ok := t.Underlying().(*types.Signature); ok {
			if sig.Results().Len() > 0 || sig.Variadic() {
				hasResults = true
			}
		}
	}
	if id, ok := x.Call.Fun.(*ast.Ident); ok {
		switch id.Name {
		case "close", "panic", "print", "println", "delete", "copy", "recover":
			hasResults = true
		}
	}
	x.Call.Fun = rw.expr(x.Call.Fun)
	rw.exprs(x.Call.Args)
	n := len(x.Call.Args)
	if hasResults || n > 6 || x.Call.Ellipsis.IsValid() {
		// go f(a, b)  =>  { t := Fork(); f', a', b' := f, a, b; go Go0(t, func(){ f'(a', b') }) }
		var lhs, rhs []ast.Expr
		fname := rw.uniq("f")
		callee := ast.Expr(ast.NewIdent(fname))
		if _, isLit := x.Call.Fun.(*ast.FuncLit); isLit || isBuiltin(x.Call.Fun) {
			callee = x.Call.Fun
		} else {
			lhs = append(lhs, ast.NewIdent(fname))
			rhs = append(rhs, x.Call.Fun)
		}
		var args []ast.Expr
		for _, a := range x.Call.Args {
			an := rw.uniq("a")
			lhs = append(lhs, ast.NewIdent(an))
			rhs = append(rhs, a)
			args = append(args, ast.NewIdent(an))
		}
		inner := &ast.CallExpr{Fun: callee, Args: args, Ellipsis: x.Call.Ellipsis}
		if x.Call.Ellipsis.IsValid() {
			inner.Ellipsis = 1
		}
		lit := &ast.FuncLit{Type: &ast.FuncType{Params: &ast.FieldList{}}, Body: &ast.BlockStmt{List: []ast.Stmt{exprStmt(inner)}}}
		blk := &ast.BlockStmt{}
		if len(lhs) > 0 {
			blk.List = append(blk.List, &ast.AssignStmt{Lhs: lhs, Tok: token.DEFINE, Rhs: rhs})
		}
		x.Call = call(sel("ssched", "Go0"), call(sel("ssched", "Fork")), lit)
		blk.List = append(blk.List, x)
		return blk
	}
	args := append([]ast.Expr{call(sel("ssched", "Fork")), x.Call.Fun}, x.Call.Args...)
	x.Call = call(sel("ssched", "Go"+strconv.Itoa(n)), args...)
	return x
}

func isBuiltin(e ast.Expr) bool {
	id, ok := e.(*ast.Ident)
	if !ok {
		return false
	}
	switch id.Name {
	case "close", "panic", "print", "println", "delete", "copy", "recover":
		return true
	}
	return false
}

func (rw *rewriter) stmt(s ast.Stmt) ast.Stmt {
	switch x := s.(type) {
	case nil:
		return nil
	case *ast.GoStmt:
		return rw.goStmt(x)
	case *ast.SendStmt:
		st.sends++
		rw.needSched = true
		return exprStmt(call(sel("ssched", "Send"), rw.expr(x.Chan), rw.expr(x.Value)))
	case *ast.ExprStmt:
		x.X = rw.expr(x.X)
	case *ast.AssignStmt:
		// v, ok := <-ch
		if len(x.Lhs) == 2 && len(x.Rhs) == 1 {
			if u, ok := x.Rhs[0].(*ast.UnaryExpr); ok && u.Op == token.ARROW {
				st.recvs++
				rw.needSched = true
				x.Rhs[0] = call(sel("ssched", "Recv2"), rw.expr(u.X))
				rw.exprs(x.Lhs)
				return x
			}
		}
		rw.exprs(x.Lhs)
		rw.exprs(x.Rhs)
	case *ast.DeclStmt:
		if gd, ok := x.Decl.(*ast.GenDecl); ok {
			for _, sp := range gd.Specs {
				if vs, ok := sp.(*ast.ValueSpec); ok {
					if len(vs.Names) == 2 && len(vs.Values) == 1 {
						if u, ok := vs.Values[0].(*ast.UnaryExpr); ok && u.Op == token.ARROW {
							st.recvs++
							rw.needSched = true
							vs.Values[0] = call(sel("ssched", "Recv2"), rw.expr(u.X))
							continue
						}
					}
					rw.exprs(vs.Values)
				}
			}
		}
	case *ast.ReturnStmt:
		rw.exprs(x.Results)
	case *ast.IncDecStmt:
		x.X = rw.expr(x.X)
	case *ast.DeferStmt:
		x.Call.Fun = rw.expr(x.Call.Fun)
		rw.exprs(x.Call.Args)
	case *ast.BlockStmt:
		rw.block(x)
	case *ast.IfStmt:
		x.Init = rw.stmt(x.Init)
		x.Cond = rw.expr(x.Cond)
		rw.block(x.Body)
		x.Else = rw.stmt(x.Else)
	case *ast.ForStmt:
		x.Init = rw.stmt(x.Init)
		x.Cond = rw.expr(x.Cond)
		x.Post = rw.stmt(x.Post)
		rw.block(x.Body)
	case *ast.RangeStmt:
		return rw.rangeStmt(x, nil)
	case *ast.SwitchStmt:
		x.Init = rw.stmt(x.Init)
		x.Tag = rw.expr(x.Tag)
		rw.block(x.Body)
	case *ast.TypeSwitchStmt:
		x.Init = rw.stmt(x.Init)
		x.Assign = rw.stmt(x.Assign)
		rw.block(x.Body)
	case *ast.CaseClause:
		rw.exprs(x.List)
		rw.stmts(x.Body)
	case *ast.LabeledStmt:
		if r, ok := x.Stmt.(*ast.RangeStmt); ok {
			return rw.rangeStmt(r, x)
		}
		x.Stmt = rw.stmt(x.Stmt)
	case *ast.SelectStmt:
		return rw.selectStmt(x)
	}
	return s
}

func isBlank(e ast.Expr) bool {
	if e == nil {
		return true
	}
	id, ok := e.(*ast.Ident)
	return ok && id.Name == "_"
}

// rangeStmt rewrites range over channels and maps; label (if any) is re-attached to the loop.
func (rw *rewriter) rangeStmt(x *ast.RangeStmt, label *ast.LabeledStmt) ast.Stmt {
	t := rw.typeOf(x.X)
	x.X = rw.expr(x.X)
	rw.block(x.Body)
	wrap := func(pre []ast.Stmt, loop ast.Stmt) ast.Stmt {
		if label != nil {
			label.Stmt = loop
			loop = label
		}
		if len(pre) == 0 {
			return loop
		}
		return &ast.BlockStmt{List: append(pre, loop)}
	}
	if t == nil {
		st.unknownRange++
		// fail closed unless the operand is obviously not a map or channel
		switch x.X.(type) {
		case *ast.SliceExpr, *ast.CompositeLit, *ast.BasicLit:
			return wrap(nil, x)
		}
		fail("%s: cannot determine the type of the range operand", rw.pos(x))
		return wrap(nil, x)
	}
	switch u := t.Underlying().(type) {
	case *types.Chan:
		st.chanrange++
		rw.needSched = true
		// for v := range ch {B}  =>  for { v, ok := Recv2(ch); if !ok {break}; B }
		ok := rw.uniq("ok")
		var lhs ast.Expr = ast.NewIdent("_")
		tok := token.DEFINE
		if !isBlank(x.Key) {
			lhs = x.Key
			tok = x.Tok
		}
		if tok == token.ASSIGN {
			// v, ok = ... needs ok declared
			decl := &ast.DeclStmt{Decl: &ast.GenDecl{Tok: token.VAR, Specs: []ast.Spec{&ast.ValueSpec{Names: []*ast.Ident{ast.NewIdent(ok)}, Type: ast.NewIdent("bool")}}}}
			recv := &ast.AssignStmt{Lhs: []ast.Expr{lhs, ast.NewIdent(ok)}, Tok: token.ASSIGN, Rhs: []ast.Expr{call(sel("ssched", "Recv2"), x.X)}}
			brk := &ast.IfStmt{Cond: &ast.UnaryExpr{Op: token.NOT, X: ast.NewIdent(ok)}, Body: &ast.BlockStmt{List: []ast.Stmt{&ast.BranchStmt{Tok: token.BREAK}}}}
			x.Body.List = append([]ast.Stmt{recv, brk}, x.Body.List...)
			return wrap([]ast.Stmt{decl}, &ast.ForStmt{Body: x.Body})
		}
		recv := &ast.AssignStmt{Lhs: []ast.Expr{lhs, ast.NewIdent(ok)}, Tok: token.DEFINE, Rhs: []ast.Expr{call(sel("ssched", "Recv2"), x.X)}}
		brk := &ast.IfStmt{Cond: &ast.UnaryExpr{Op: token.NOT, X: ast.NewIdent(ok)}, Body: &ast.BlockStmt{List: []ast.Stmt{&ast.BranchStmt{Tok: token.BREAK}}}}
		x.Body.List = append([]ast.Stmt{recv, brk}, x.Body.List...)
		return wrap(nil, &ast.ForStmt{Body: x.Body})
	case *types.Map:
		_ = u
		st.maprange++
		rw.needSched = true
		if x.Tok == token.ASSIGN {
			fail("%s: range over map with '=' is not supported", rw.pos(x))
			return wrap(nil, x)
		}
		// for k, v := range m {B} => { m' := m; for _, k := range SortedKeys(m') { v, ok := m'[k]; if !ok {continue}; B } }
		mname := rw.uniq("m")
		pre := []ast.Stmt{define(mname, x.X)}
		kname := ast.Expr(ast.NewIdent(rw.uniq("k")))
		if !isBlank(x.Key) {
			kname = x.Key
		}
		var head []ast.Stmt
		ok := rw.uniq("ok")
		var vlhs ast.Expr = ast.NewIdent("_")
		if !isBlank(x.Value) {
			vlhs = x.Value
		}
		head = append(head, &ast.AssignStmt{Lhs: []ast.Expr{vlhs, ast.NewIdent(ok)}, Tok: token.DEFINE,
			Rhs: []ast.Expr{&ast.IndexExpr{X: ast.NewIdent(mname), Index: kname}}})
		head = append(head, &ast.IfStmt{Cond: &ast.UnaryExpr{Op: token.NOT, X: ast.NewIdent(ok)}, Body: &ast.BlockStmt{List: []ast.Stmt{&ast.BranchStmt{Tok: token.CONTINUE}}}})
		x.Body.List = append(head, x.Body.List...)
		loop := &ast.RangeStmt{Key: ast.NewIdent("_"), Value: kname, Tok: token.DEFINE, X: call(sel("ssched", "SortedKeys"), ast.NewIdent(mname)), Body: x.Body}
		return wrap(pre, loop)
	}
	return wrap(nil, x)
}

// hasLabelDecl reports whether any statement list below declares a label (duplicating it would
// not compile).
func hasLabelDecl(n ast.Node) bool {
	found := false
	ast.Inspect(n, func(m ast.Node) bool {
		if _, ok := m.(*ast.LabeledStmt); ok {
			found = true
		}
		return !found
	})
	return found
}

func (rw *rewriter) cloneClause(cc *ast.CommClause) *ast.CommClause {
	// deep copy through print/parse of a wrapper function
	var buf bytes.Buffer
	buf.WriteString("package p\nfunc _() {\nselect {\n")
	if err := printer.Fprint(&buf, rw.fset, cc); err != nil {
		fail("%s: clone: %v", rw.pos(cc), err)
		return cc
	}
	buf.WriteString("\n}\n}\n")
	f, err := parser.ParseFile(token.NewFileSet(), "", buf.Bytes(), 0)
	if err != nil {
		fail("%s: clone parse: %v", rw.pos(cc), err)
		return cc
	}
	selst := f.Decls[0].(*ast.FuncDecl).Body.List[0].(*ast.SelectStmt)
	c := selst.Body.List[0].(*ast.CommClause)
	stripPos(c)
	return c
}

// stripPos zeroes positions of a cloned subtree so that the printer lays it out afresh.
func stripPos(n ast.Node) {
	ast.Inspect(n, func(m ast.Node) bool {
		switch x := m.(type) {
		case *ast.Ident:
			x.NamePos = 0
		case *ast.BasicLit:
			x.ValuePos = 0
		case *ast.CallExpr:
			x.Lparen, x.Rparen = 0, 0
			if x.Ellipsis != 0 {
				x.Ellipsis = 1
			}
		case *ast.BlockStmt:
			x.Lbrace, x.Rbrace = 0, 0
		case *ast.CompositeLit:
			x.Lbrace, x.Rbrace = 0, 0
		case *ast.FuncLit:
		case *ast.CommClause:
			x.Case, x.Colon = 0, 0
		case *ast.CaseClause:
			x.Case, x.Colon = 0, 0
		case *ast.IfStmt:
			x.If = 0
		case *ast.ForStmt:
			x.For = 0
		case *ast.RangeStmt:
			x.For, x.TokPos = 0, 0
		case *ast.ReturnStmt:
			x.Return = 0
		case *ast.AssignStmt:
			x.TokPos = 0
		case *ast.UnaryExpr:
			x.OpPos = 0
		case *ast.BinaryExpr:
			x.OpPos = 0
		case *ast.SelectStmt:
			x.Select = 0
		case *ast.SwitchStmt:
			x.Switch = 0
		case *ast.TypeSwitchStmt:
			x.Switch = 0
		case *ast.BranchStmt:
			x.TokPos = 0
		case *ast.GoStmt:
			x.Go = 0
		case *ast.DeferStmt:
			x.Defer = 0
		case *ast.SendStmt:
			x.Arrow = 0
		case *ast.IncDecStmt:
			x.TokPos = 0
		case *ast.ParenExpr:
			x.Lparen, x.Rparen = 0, 0
		case *ast.IndexExpr:
			x.Lbrack, x.Rbrack = 0, 0
		case *ast.SliceExpr:
			x.Lbrack, x.Rbrack = 0, 0
		case *ast.StarExpr:
			x.Star = 0
		case *ast.TypeAssertExpr:
			x.Lparen, x.Rparen = 0, 0
		case *ast.KeyValueExpr:
			x.Colon = 0
		case *ast.FuncType:
			x.Func = 0
		case *ast.FieldList:
			x.Opening, x.Closing = 0, 0
		case *ast.ArrayType:
			x.Lbrack = 0
		case *ast.MapType:
			x.Map = 0
		case *ast.ChanType:
			x.Begin, x.Arrow = 0, 0
		case *ast.StructType:
			x.Struct = 0
		case *ast.InterfaceType:
			x.Interface = 0
		case *ast.GenDecl:
			x.TokPos, x.Lparen, x.Rparen = 0, 0, 0
		case *ast.Ellipsis:
			x.Ellipsis = 0
		case *ast.LabeledStmt:
			x.Colon = 0
		case *ast.EmptyStmt:
			x.Semicolon = 0
		}
		return true
	})
}

// selectStmt: native comm clauses are kept (blocking, default and hand-off semantics stay the
// runtime's), bracketed by PreBlock/PostBlock. A select with two or more communication cases is
// preceded by single-case non-blocking polls (random first case, then source order) so that the
// native multi-case select is only ever entered with no case ready: the Go runtime's own
// unseedable random choice among ready cases never happens.
func (rw *rewriter) selectStmt(x *ast.SelectStmt) ast.Stmt {
	st.selects++
	rw.needSched = true
	terminating := selectTerminates(x)
	tok := rw.uniq("tok")
	var comm []*ast.CommClause
	for _, c := range x.Body.List {
		cc := c.(*ast.CommClause)
		rw.stmts(cc.Body)
		if cc.Comm != nil {
			comm = append(comm, cc)
			// the channel / value operands of the comm statement are ordinary expressions
			switch cs := cc.Comm.(type) {
			case *ast.SendStmt:
				cs.Chan, cs.Value = rw.expr(cs.Chan), rw.expr(cs.Value)
			case *ast.ExprStmt:
				if u, ok := cs.X.(*ast.UnaryExpr); ok && u.Op == token.ARROW {
					u.X = rw.expr(u.X)
				}
			case *ast.AssignStmt:
				if u, ok := cs.Rhs[0].(*ast.UnaryExpr); ok && u.Op == token.ARROW {
					u.X = rw.expr(u.X)
				}
			}
		}
	}
	post := func() ast.Stmt { return exprStmt(call(sel("ssched", "PostBlock"), ast.NewIdent(tok))) }
	pre := define(tok, call(sel("ssched", "PreBlock")))
	if len(comm) < 2 {
		for _, cc := range comm {
			cc.Body = append([]ast.Stmt{post()}, cc.Body...)
		}
		return &ast.BlockStmt{List: []ast.Stmt{exprStmt(call(sel("ssched", "Yield"))), pre, x}}
	}
	st.multisel++
	for _, cc := range comm {
		if hasLabelDecl(cc) {
			fail("%s: select clause declares a label; cannot duplicate it", rw.pos(cc))
		}
	}
	done := rw.uniq("done")
	// poll(i): select { case <comm_i>: done = true; PostBlock; body_i ; default: }
	poll := func(cc *ast.CommClause) ast.Stmt {
		c := rw.cloneClause(cc)
		c.Body = append([]ast.Stmt{
			&ast.AssignStmt{Lhs: []ast.Expr{ast.NewIdent(done)}, Tok: token.ASSIGN, Rhs: []ast.Expr{ast.NewIdent("true")}},
		}, c.Body...)
		return &ast.SelectStmt{Body: &ast.BlockStmt{List: []ast.Stmt{c, &ast.CommClause{}}}}
	}
	var out []ast.Stmt
	out = append(out, define(done, ast.NewIdent("false")))
	// random first poll
	sw := &ast.SwitchStmt{Tag: call(sel("ssched", "SelectStart"), intLit(len(comm))), Body: &ast.BlockStmt{}}
	for i, cc := range comm {
		sw.Body.List = append(sw.Body.List, &ast.CaseClause{List: []ast.Expr{intLit(i)}, Body: []ast.Stmt{poll(cc)}})
	}
	out = append(out, sw)
	notDone := func(body ast.Stmt) ast.Stmt {
		return &ast.IfStmt{Cond: &ast.UnaryExpr{Op: token.NOT, X: ast.NewIdent(done)}, Body: &ast.BlockStmt{List: []ast.Stmt{body}}}
	}
	for _, cc := range comm {
		out = append(out, notDone(poll(cc)))
	}
	for _, cc := range comm {
		cc.Body = append([]ast.Stmt{post()}, cc.Body...)
	}
	out = append(out, notDone(&ast.BlockStmt{List: []ast.Stmt{pre, x}}))
	if terminating {
		// the original select was a terminating statement: nothing after it is reachable
		out = append(out, exprStmt(call(ast.NewIdent("panic"), &ast.BasicLit{Kind: token.STRING, Value: strconv.Quote("simbuild: unreachable")})))
	}
	return &ast.BlockStmt{List: out}
}

// selectTerminates is a conservative version of the spec's "terminating statement" rule for a
// select: every clause ends in return / panic / terminating if-else / block, and no unlabeled
// break refers to the select.
func selectTerminates(x *ast.SelectStmt) bool {
	for _, c := range x.Body.List {
		cc := c.(*ast.CommClause)
		if len(cc.Body) == 0 || !stmtTerminates(cc.Body[len(cc.Body)-1]) {
			return false
		}
		for _, s := range cc.Body {
			if hasBreak(s) {
				return false
			}
		}
	}
	return true
}

func stmtTerminates(s ast.Stmt) bool {
	switch x := s.(type) {
	case *ast.ReturnStmt:
		return true
	case *ast.ExprStmt:
		if c, ok := x.X.(*ast.CallExpr); ok {
			if id, ok := c.Fun.(*ast.Ident); ok && id.Name == "panic" {
				return true
			}
		}
	case *ast.BlockStmt:
		return len(x.List) > 0 && stmtTerminates(x.List[len(x.List)-1])
	case *ast.IfStmt:
		if x.Else == nil {
			return false
		}
		return stmtTerminates(x.Body) && stmtTerminates(x.Else)
	}
	return false
}

// hasBreak reports an unlabeled break that is not nested in an inner for/switch/select.
func hasBreak(s ast.Stmt) bool {
	found := false
	var walk func(n ast.Node) bool
	walk = func(n ast.Node) bool {
		switch x := n.(type) {
		case *ast.ForStmt, *ast.RangeStmt, *ast.SwitchStmt, *ast.TypeSwitchStmt, *ast.SelectStmt, *ast.FuncLit:
			return false
		case *ast.BranchStmt:
			if x.Tok == token.BREAK {
				found = true
			}
		}
		return !found
	}
	ast.Inspect(s, walk)
	return found
}

func min(a, b int) int {
	if a < b {
		return a
	}
	return b
}
