#!/bin/bash
# reseed.sh [name-glob]: re-runs the quick check of every filed seeded change (seeded/<name>/patch.diff)
# against a scratch copy of /repo with the change applied, and updates meta.json (check_result,
# first_violation). /repo itself is never modified.
VERIF=/verif
# checks run from a snapshot of the verifier when SIM_SNAPSHOT is set (sim/ can then be edited meanwhile)
SNAP=${SIM_SNAPSHOT:-$VERIF}
for d in $VERIF/seeded/${1:-*}/; do
  n=$(basename $d); [ -f "$d/patch.diff" ] || continue
  PROP=$(python3 -c "import json;print(json.load(open('$d/meta.json'))['property'])")
  SCR=$(mktemp -d /dev/shm/seedrepo-XXXXXX)
  rsync -a --exclude .git /repo/ "$SCR"/
  if ! (cd "$SCR" && patch -p1 -s < "$d/patch.diff" >/dev/null 2>&1); then echo "$n: patch does not apply to the current tree"; rm -rf "$SCR"; RES="patch_conflict"; LINE="";
  else
    rm -rf "$d/replays"; 
    SIM_REPO="$SCR" SIM_EVIDENCE_DIR="$d/evidence" SIM_REPLAY_DIR="$d/replays" python3 $SNAP/sim/vcheck.py check $PROP --no-selftest >/tmp/reseed_$n.log 2>&1; RC=$?
    rm -rf "$SCR"
    case $RC in 1) RES=detected;; 0) RES=missed;; *) RES="error($RC)";; esac
    LINE=$(grep -E "class=" /tmp/reseed_$n.log | head -2 | tr '\n' ' ' | cut -c1-500)
  fi
  echo "$n: $RES $(echo $LINE | cut -c1-160)"
  python3 - "$d/meta.json" "$RES" "$LINE" <<'PY'
import json,sys
p,res,line=sys.argv[1:4]
m=json.load(open(p)); m['check_result']=res; m['first_violation']=line
m['ran']="scratch copy of /repo with patch.diff applied; SIM_REPO=<copy> python3 sim/vcheck.py check %s --no-selftest"%m['property']
json.dump(m,open(p,'w'),indent=1)
PY
done
