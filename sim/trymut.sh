#!/bin/bash
# trymut.sh <patch.diff> <prop> <first> <count> [kind]  -- developer helper: build a scratch copy of /repo
# with the patch applied and run a batch against it (the scratch copy is removed afterwards)
P=$1; shift
export GOFLAGS=-mod=mod GOPROXY=off GOSUMDB=off GOTOOLCHAIN=local
SCR=$(mktemp -d /dev/shm/seedrepo-XXXXXX); B=$(mktemp -d /dev/shm/seedbuild-XXXXXX)
rsync -a --exclude .git /repo/ $SCR/
if (cd $SCR && patch -p1 -s < $P >/dev/null 2>&1); then
  SIM_REPO=$SCR /verif/sim/build.sh $B >/dev/null 2>&1 && /verif/sim/trybatch.sh $B "$@" 2>&1 | grep -v "^probes\|^kinds" | cut -c1-600
else echo "patch conflict"; fi
rm -rf $SCR $B
