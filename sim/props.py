"""Per-property check configuration (budgets, evidence wording, required reach probes)."""

_core_rule = ("each run = one seeded scenario (workload of LOCK/UNLOCK requests from the core command subset over a few keys and LockIds, "
              "server knobs, scheduling strategy, network shape) executed by the real server code under the simulator, observed at the wire/result-callback "
              "level (L1) and at every release of a shard mutex (L3, true serial order), each transition being checked against the reference model; "
              "a run is non-trivial when at least two requests were granted and at least one request waited, timed out or expired; "
              "distinct = distinct event-log hash (every scheduling decision, request and reply)")


def _core(seed, probes, extra=None):
    d = {
        "level": "exploration", "seed": seed, "rule": _core_rule,
        "quick": {"runs": 6000, "selftest": 40},
        "thorough": {"runs": 4000000, "budget": 1200, "selftest": 150},
        "required_probes": probes,
    }
    if extra:
        d.update(extra)
    return d


PROPS = {
    "C01": _core(1, ["cs_request", "granted_after_wait", "l1_grant_with_definite_holds"]),
    "C02": _core(2, ["cs_request", "reply_counts_asserted"]),
    "C03": _core(3, ["granted_after_wait", "timeouts", "expiries"]),
    "C04": _core(4, ["cs_wake", "quiescent_checks"]),
    "C05": _core(5, ["cs_timeout", "timeouts"]),
    "C06": _core(6, ["cs_expire", "expiries"]),
    "C17": _core(17, ["quiescent_checks", "reply_counts_asserted"]),
    "C15": _core(15, ["cs_request"], {"rule": _core_rule + "; C15 scenario kinds carry a value operation (SET UNSET INCR APPEND SHIFT PUSH POP PIPELINE, with and without property headers) on ~75% of the requests; every value written is unique"}),
}
PROPS["C02"]["required_probes"].append("holders_gt128")
PROPS["C04"]["required_probes"] += ["queue_gt8", "queue_gt128"]
PROPS["C05"]["required_probes"].append("waiter_in_long_table")
PROPS["C06"]["required_probes"].append("hold_in_long_table")
PROPS["C02"]["quick"]["runs"] = 4000
PROPS["C04"]["quick"]["runs"] = 3000
