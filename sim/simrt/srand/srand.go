// Package srand replaces "math/rand": a dedicated sub-stream of the run's PRNG.
package srand

import "github.com/snower/slock/simrt/ssched"

var r = ssched.NewRand(1)

// Reset re-seeds the stream; called by the harness at the start of every run.
func Reset(seed uint64) { r = ssched.Sub(seed, "math/rand") }

func Seed(s int64)         {}
func Int63() int64         { return r.Int63() }
func Int63n(n int64) int64 { return r.Int63() % n }
func Int31() int32         { return int32(r.Int63() >> 32) }
func Int31n(n int32) int32 { return int32(r.Int63() % int64(n)) }
func Int() int             { return int(r.Int63()) }
func Intn(n int) int       { return int(r.Int63() % int64(n)) }
func Uint32() uint32       { return uint32(r.Uint64() >> 32) }
func Uint64() uint64       { return r.Uint64() }
func Float64() float64     { return r.Float64() }
func Float32() float32     { return float32(r.Float64()) }
func Perm(n int) []int {
	p := make([]int, n)
	for i := range p {
		j := Intn(i + 1)
		p[i] = p[j]
		p[j] = i
	}
	return p
}
func Shuffle(n int, swap func(i, j int)) {
	for i := n - 1; i > 0; i-- {
		swap(i, Intn(i+1))
	}
}
func Read(p []byte) (int, error) {
	for i := range p {
		p[i] = byte(r.Uint64())
	}
	return len(p), nil
}
