// Package scrand replaces "crypto/rand": a dedicated sub-stream of the run's PRNG.
package scrand

import (
	"io"
	"math/big"

	"github.com/snower/slock/simrt/ssched"
)

var r = ssched.NewRand(2)

func Reset(seed uint64) { r = ssched.Sub(seed, "crypto/rand") }

type reader struct{}

func (reader) Read(p []byte) (int, error) {
	for i := range p {
		p[i] = byte(r.Uint64())
	}
	return len(p), nil
}

var Reader io.Reader = reader{}

func Read(p []byte) (int, error) { return Reader.Read(p) }

func Int(_ io.Reader, max *big.Int) (*big.Int, error) {
	if max.Sign() <= 0 {
		panic("crypto/rand: argument to Int is <= 0")
	}
	if max.IsInt64() {
		return big.NewInt(r.Int63() % max.Int64()), nil
	}
	n := new(big.Int).SetUint64(r.Uint64())
	return n.Mod(n, max), nil
}
func Text() string { return "simsimsimsimsimsimsimsimsi" }
