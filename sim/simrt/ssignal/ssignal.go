// Package ssignal replaces "os/signal": the simulated server never receives signals.
package ssignal

import "os"

func Notify(c chan<- os.Signal, sig ...os.Signal) {}
func Stop(c chan<- os.Signal)                     {}
func Ignore(sig ...os.Signal)                     {}
func Reset(sig ...os.Signal)                      {}
