// Package satomic replaces "sync/atomic": a preemption point, then the real operation.
package satomic

import (
	"sync/atomic"
	"unsafe"

	"github.com/snower/slock/simrt/ssched"
)

func AddInt32(p *int32, d int32) int32                 { ssched.Yield(); return atomic.AddInt32(p, d) }
func AddInt64(p *int64, d int64) int64                 { ssched.Yield(); return atomic.AddInt64(p, d) }
func AddUint32(p *uint32, d uint32) uint32             { ssched.Yield(); return atomic.AddUint32(p, d) }
func AddUint64(p *uint64, d uint64) uint64             { ssched.Yield(); return atomic.AddUint64(p, d) }
func AddUintptr(p *uintptr, d uintptr) uintptr         { ssched.Yield(); return atomic.AddUintptr(p, d) }
func LoadInt32(p *int32) int32                         { ssched.Yield(); return atomic.LoadInt32(p) }
func LoadInt64(p *int64) int64                         { ssched.Yield(); return atomic.LoadInt64(p) }
func LoadUint32(p *uint32) uint32                      { ssched.Yield(); return atomic.LoadUint32(p) }
func LoadUint64(p *uint64) uint64                      { ssched.Yield(); return atomic.LoadUint64(p) }
func LoadUintptr(p *uintptr) uintptr                   { ssched.Yield(); return atomic.LoadUintptr(p) }
func LoadPointer(p *unsafe.Pointer) unsafe.Pointer     { ssched.Yield(); return atomic.LoadPointer(p) }
func StoreInt32(p *int32, v int32)                     { ssched.Yield(); atomic.StoreInt32(p, v) }
func StoreInt64(p *int64, v int64)                     { ssched.Yield(); atomic.StoreInt64(p, v) }
func StoreUint32(p *uint32, v uint32)                  { ssched.Yield(); atomic.StoreUint32(p, v) }
func StoreUint64(p *uint64, v uint64)                  { ssched.Yield(); atomic.StoreUint64(p, v) }
func StoreUintptr(p *uintptr, v uintptr)               { ssched.Yield(); atomic.StoreUintptr(p, v) }
func StorePointer(p *unsafe.Pointer, v unsafe.Pointer) { ssched.Yield(); atomic.StorePointer(p, v) }
func SwapInt32(p *int32, v int32) int32                { ssched.Yield(); return atomic.SwapInt32(p, v) }
func SwapInt64(p *int64, v int64) int64                { ssched.Yield(); return atomic.SwapInt64(p, v) }
func SwapUint32(p *uint32, v uint32) uint32            { ssched.Yield(); return atomic.SwapUint32(p, v) }
func SwapUint64(p *uint64, v uint64) uint64            { ssched.Yield(); return atomic.SwapUint64(p, v) }
func CompareAndSwapInt32(p *int32, o, n int32) bool {
	ssched.Yield()
	return atomic.CompareAndSwapInt32(p, o, n)
}
func CompareAndSwapInt64(p *int64, o, n int64) bool {
	ssched.Yield()
	return atomic.CompareAndSwapInt64(p, o, n)
}
func CompareAndSwapUint32(p *uint32, o, n uint32) bool {
	ssched.Yield()
	return atomic.CompareAndSwapUint32(p, o, n)
}
func CompareAndSwapUint64(p *uint64, o, n uint64) bool {
	ssched.Yield()
	return atomic.CompareAndSwapUint64(p, o, n)
}
func CompareAndSwapPointer(p *unsafe.Pointer, o, n unsafe.Pointer) bool {
	ssched.Yield()
	return atomic.CompareAndSwapPointer(p, o, n)
}

type Int32 struct{ v atomic.Int32 }

func (x *Int32) Load() int32                    { ssched.Yield(); return x.v.Load() }
func (x *Int32) Store(v int32)                  { ssched.Yield(); x.v.Store(v) }
func (x *Int32) Add(d int32) int32              { ssched.Yield(); return x.v.Add(d) }
func (x *Int32) Swap(v int32) int32             { ssched.Yield(); return x.v.Swap(v) }
func (x *Int32) CompareAndSwap(o, n int32) bool { ssched.Yield(); return x.v.CompareAndSwap(o, n) }

type Int64 struct{ v atomic.Int64 }

func (x *Int64) Load() int64                    { ssched.Yield(); return x.v.Load() }
func (x *Int64) Store(v int64)                  { ssched.Yield(); x.v.Store(v) }
func (x *Int64) Add(d int64) int64              { ssched.Yield(); return x.v.Add(d) }
func (x *Int64) Swap(v int64) int64             { ssched.Yield(); return x.v.Swap(v) }
func (x *Int64) CompareAndSwap(o, n int64) bool { ssched.Yield(); return x.v.CompareAndSwap(o, n) }

type Uint32 struct{ v atomic.Uint32 }

func (x *Uint32) Load() uint32                    { ssched.Yield(); return x.v.Load() }
func (x *Uint32) Store(v uint32)                  { ssched.Yield(); x.v.Store(v) }
func (x *Uint32) Add(d uint32) uint32             { ssched.Yield(); return x.v.Add(d) }
func (x *Uint32) Swap(v uint32) uint32            { ssched.Yield(); return x.v.Swap(v) }
func (x *Uint32) CompareAndSwap(o, n uint32) bool { ssched.Yield(); return x.v.CompareAndSwap(o, n) }

type Uint64 struct{ v atomic.Uint64 }

func (x *Uint64) Load() uint64                    { ssched.Yield(); return x.v.Load() }
func (x *Uint64) Store(v uint64)                  { ssched.Yield(); x.v.Store(v) }
func (x *Uint64) Add(d uint64) uint64             { ssched.Yield(); return x.v.Add(d) }
func (x *Uint64) Swap(v uint64) uint64            { ssched.Yield(); return x.v.Swap(v) }
func (x *Uint64) CompareAndSwap(o, n uint64) bool { ssched.Yield(); return x.v.CompareAndSwap(o, n) }

type Bool struct{ v atomic.Bool }

func (x *Bool) Load() bool                    { ssched.Yield(); return x.v.Load() }
func (x *Bool) Store(v bool)                  { ssched.Yield(); x.v.Store(v) }
func (x *Bool) Swap(v bool) bool              { ssched.Yield(); return x.v.Swap(v) }
func (x *Bool) CompareAndSwap(o, n bool) bool { ssched.Yield(); return x.v.CompareAndSwap(o, n) }

type Value struct{ v atomic.Value }

func (x *Value) Load() any                    { ssched.Yield(); return x.v.Load() }
func (x *Value) Store(v any)                  { ssched.Yield(); x.v.Store(v) }
func (x *Value) Swap(v any) any               { ssched.Yield(); return x.v.Swap(v) }
func (x *Value) CompareAndSwap(o, n any) bool { ssched.Yield(); return x.v.CompareAndSwap(o, n) }

type Pointer[T any] struct{ v atomic.Pointer[T] }

func (x *Pointer[T]) Load() *T                    { ssched.Yield(); return x.v.Load() }
func (x *Pointer[T]) Store(v *T)                  { ssched.Yield(); x.v.Store(v) }
func (x *Pointer[T]) Swap(v *T) *T                { ssched.Yield(); return x.v.Swap(v) }
func (x *Pointer[T]) CompareAndSwap(o, n *T) bool { ssched.Yield(); return x.v.CompareAndSwap(o, n) }
