// Package stime replaces "time". The clock is the synctest bubble's fake clock plus a per-node
// skew; blocking calls obey the scheduler's post-block rule.
package stime

import (
	"time"

	"github.com/snower/slock/simrt/ssched"
)

type Time = time.Time
type Duration = time.Duration
type Timer = time.Timer
type Ticker = time.Ticker
type Month = time.Month
type Weekday = time.Weekday
type Location = time.Location
type ParseError = time.ParseError

const (
	Nanosecond  = time.Nanosecond
	Microsecond = time.Microsecond
	Millisecond = time.Millisecond
	Second      = time.Second
	Minute      = time.Minute
	Hour        = time.Hour

	Layout      = time.Layout
	ANSIC       = time.ANSIC
	UnixDate    = time.UnixDate
	RFC822      = time.RFC822
	RFC1123     = time.RFC1123
	RFC3339     = time.RFC3339
	RFC3339Nano = time.RFC3339Nano
	Kitchen     = time.Kitchen
	Stamp       = time.Stamp
	StampMilli  = time.StampMilli
	StampMicro  = time.StampMicro
	StampNano   = time.StampNano
	DateTime    = time.DateTime
	DateOnly    = time.DateOnly
	TimeOnly    = time.TimeOnly

	January = time.January
	Sunday  = time.Sunday
)

var (
	UTC   = time.UTC
	Local = time.Local
)

// Skew is the per-node wall clock offset, set by the harness (clock skew and jumps).
var Skew = map[int]time.Duration{}

func Reset() { Skew = map[int]time.Duration{} }

func Now() time.Time {
	ssched.Yield()
	n := time.Now()
	if len(Skew) != 0 {
		if d := Skew[ssched.CurrentNode()]; d != 0 {
			return n.Add(d)
		}
	}
	return n
}
func Unix(s, n int64) time.Time    { return time.Unix(s, n) }
func UnixMilli(ms int64) time.Time { return time.UnixMilli(ms) }
func UnixMicro(us int64) time.Time { return time.UnixMicro(us) }
func Date(y int, mo time.Month, d, h, mi, s, ns int, loc *time.Location) time.Time {
	return time.Date(y, mo, d, h, mi, s, ns, loc)
}
func Since(t time.Time) time.Duration               { return Now().Sub(t) }
func Until(t time.Time) time.Duration               { return t.Sub(Now()) }
func Parse(l, v string) (time.Time, error)          { return time.Parse(l, v) }
func ParseDuration(s string) (time.Duration, error) { return time.ParseDuration(s) }
func LoadLocation(n string) (*time.Location, error) { return time.LoadLocation(n) }
func FixedZone(n string, o int) *time.Location      { return time.FixedZone(n, o) }
func After(d time.Duration) <-chan time.Time        { ssched.Yield(); return time.After(d) }
func Tick(d time.Duration) <-chan time.Time         { ssched.Yield(); return time.Tick(d) }
func NewTimer(d time.Duration) *time.Timer          { ssched.Yield(); return time.NewTimer(d) }
func NewTicker(d time.Duration) *time.Ticker        { ssched.Yield(); return time.NewTicker(d) }
func AfterFunc(d time.Duration, f func()) *time.Timer {
	ssched.Yield()
	t := ssched.Fork()
	return time.AfterFunc(d, func() { ssched.Go0(t, f) })
}
func Sleep(d time.Duration) {
	ssched.Yield()
	if d <= 0 {
		return
	}
	t := ssched.PreBlock()
	time.Sleep(d)
	ssched.PostBlock(t)
}
