// Package sos replaces "os" for instrumented code. Files are real files in a per-run directory
// on tmpfs (so filepath.Walk, Stat and bufio keep working); every mutating call is a preemption
// point, may be failed or torn by the fault plan, and is appended with its payload to the disk
// journal from which crash images are materialised.
package sos

import (
	"errors"
	"io"
	"io/fs"
	"os"
	"path/filepath"
	"strings"
	"syscall"
	"time"

	"github.com/snower/slock/simrt/ssched"
)

type FileInfo = os.FileInfo
type FileMode = os.FileMode
type Signal = os.Signal
type PathError = os.PathError
type DirEntry = os.DirEntry
type Process = os.Process

const (
	O_RDONLY = os.O_RDONLY
	O_WRONLY = os.O_WRONLY
	O_RDWR   = os.O_RDWR
	O_CREATE = os.O_CREATE
	O_APPEND = os.O_APPEND
	O_TRUNC  = os.O_TRUNC
	O_EXCL   = os.O_EXCL
	O_SYNC   = os.O_SYNC

	ModePerm = os.ModePerm
	ModeDir  = os.ModeDir

	PathSeparator = os.PathSeparator
)

var (
	ErrNotExist = os.ErrNotExist
	ErrExist    = os.ErrExist
	ErrClosed   = os.ErrClosed
	Args        = []string{"slock-sim"}
	Stdin       = os.Stdin
	Stdout      = os.Stdout
	Stderr      = os.Stderr
	Interrupt   = os.Interrupt
	Kill        = os.Kill
)

func IsNotExist(err error) bool   { return os.IsNotExist(err) }
func IsExist(err error) bool      { return os.IsExist(err) }
func IsPermission(err error) bool { return os.IsPermission(err) }
func IsTimeout(err error) bool    { return os.IsTimeout(err) }
func Getpid() int                 { return 4242 }
func Getenv(k string) string      { return "" }
func Exit(code int)               { panic("sos.Exit called by simulated code") }
func Hostname() (string, error)   { return "simhost", nil }
func Getwd() (string, error)      { return os.Getwd() }
func TempDir() string             { return os.TempDir() }

// ---------------------------------------------------------------------------------------------
// journal

type JEntry struct {
	Idx   int    `json:"i"`
	Node  int    `json:"n"`
	Task  string `json:"t"`
	Step  uint64 `json:"s"`
	Op    string `json:"op"` // create trunc write truncate sync close remove rename mkdir
	Path  string `json:"p"`
	Path2 string `json:"p2,omitempty"`
	Off   int64  `json:"off,omitempty"`
	Size  int64  `json:"size,omitempty"`
	Data  []byte `json:"d,omitempty"`
	Fail  bool   `json:"fail,omitempty"`
}

// Fault is what the harness may answer for a mutating call.
type Fault struct {
	Err   error // fail the call (for writes after Short bytes)
	Short int   // writes: number of bytes actually written before Err (or before the crash)
	Crash bool  // kill the calling node inside this call (torn write when Short < len)
	Delay time.Duration // the call takes this long (a slow or stalled disk); combined with the rest
}

type Disk struct {
	J      []JEntry
	files  map[*File]bool
	Inject func(node int, op string, path string, n int, idx int) *Fault
	// OnCrash is called when a Fault asks for a crash; the harness kills the node.
	OnCrash func(node int)
	// OnOp observes every journalled call (after it happened).
	OnOp  func(e *JEntry)
	Stats struct{ Writes, Syncs, Errors, Torn, Removes, Renames, Stalls int }
}

var D *Disk

func Reset() *Disk {
	D = &Disk{files: map[*File]bool{}}
	return D
}

func (d *Disk) add(e JEntry) *JEntry {
	e.Idx = len(d.J)
	e.Node = ssched.CurrentNode()
	if t := ssched.CurrentTask(); t != nil {
		e.Task = t.Name
	}
	if ssched.S != nil {
		e.Step = ssched.S.Steps
	}
	d.J = append(d.J, e)
	p := &d.J[len(d.J)-1]
	if d.OnOp != nil {
		d.OnOp(p)
	}
	return p
}

func (d *Disk) fault(op, path string, n int) *Fault {
	if d == nil || d.Inject == nil {
		return nil
	}
	return d.Inject(ssched.CurrentNode(), op, path, n, len(d.J))
}

func (d *Disk) crash() {
	node := ssched.CurrentNode()
	if d.OnCrash != nil {
		d.OnCrash(node)
	}
	ssched.Yield() // dead node: exits here
}

// KillNode closes the files a dead node left open.
func (d *Disk) KillNode(node int) {
	for f := range d.files {
		if f.node == node && f.f != nil {
			_ = f.f.Close()
			f.closed = true
			delete(d.files, f)
		}
	}
}

// CloseAll closes every file still open at the end of a run.
func (d *Disk) CloseAll() {
	for f := range d.files {
		if f.f != nil {
			_ = f.f.Close()
		}
	}
	d.files = map[*File]bool{}
}

// Materialise replays journal entries [0,upto) of one node into dir (which must be empty),
// mapping paths from srcRoot to dir. filter, if not nil, drops entries for which it returns false.
// tear >= 0 applies only that many bytes of the last applied write.
func (d *Disk) Materialise(node int, upto int, srcRoot, dir string, filter func(e *JEntry) bool, tear int) error {
	under := func(p string) bool {
		rel, err := filepath.Rel(srcRoot, p)
		return err == nil && !strings.HasPrefix(rel, "..")
	}
	if node < 0 {
		// every node that worked under srcRoot (successive incarnations on one data directory)
		f0 := filter
		filter = func(e *JEntry) bool { return under(e.Path) && (f0 == nil || f0(e)) }
	}
	mapPath := func(p string) string {
		rel, err := filepath.Rel(srcRoot, p)
		if err != nil {
			return filepath.Join(dir, filepath.Base(p))
		}
		return filepath.Join(dir, rel)
	}
	last := -1
	for i := 0; i < upto && i < len(d.J); i++ {
		e := &d.J[i]
		if (node >= 0 && e.Node != node) || e.Fail || (filter != nil && !filter(e)) {
			continue
		}
		last = i
	}
	for i := 0; i < upto && i < len(d.J); i++ {
		e := &d.J[i]
		if (node >= 0 && e.Node != node) || e.Fail || (filter != nil && !filter(e)) {
			continue
		}
		p := mapPath(e.Path)
		switch e.Op {
		case "create":
			f, err := os.OpenFile(p, os.O_CREATE|os.O_WRONLY, 0644)
			if err != nil {
				return err
			}
			f.Close()
		case "trunc":
			if err := os.Truncate(p, 0); err != nil && !os.IsNotExist(err) {
				return err
			}
		case "truncate":
			if err := os.Truncate(p, e.Size); err != nil {
				return err
			}
		case "write":
			data := e.Data
			if i == last && tear >= 0 && tear < len(data) {
				data = data[:tear]
			}
			f, err := os.OpenFile(p, os.O_CREATE|os.O_WRONLY, 0644)
			if err != nil {
				return err
			}
			_, err = f.WriteAt(data, e.Off)
			f.Close()
			if err != nil {
				return err
			}
		case "remove":
			_ = os.Remove(p)
		case "rename":
			_ = os.Rename(p, mapPath(e.Path2))
		case "mkdir":
			_ = os.MkdirAll(p, 0755)
		}
	}
	return nil
}

// ---------------------------------------------------------------------------------------------
// file

type File struct {
	f      *os.File
	name   string
	node   int
	append bool
	closed bool
}

func OpenFile(name string, flag int, perm os.FileMode) (*File, error) {
	ssched.Yield()
	d := D
	mut := flag&(os.O_CREATE|os.O_TRUNC|os.O_WRONLY|os.O_RDWR|os.O_APPEND) != 0
	var existed bool
	if mut {
		_, err := os.Stat(name)
		existed = err == nil
		if ft := d.fault("open", name, 0); ft != nil {
			if ft.Crash {
				d.crash()
			}
			if ft.Err != nil {
				d.Stats.Errors++
				return nil, &os.PathError{Op: "open", Path: name, Err: ft.Err}
			}
		}
	}
	f, err := os.OpenFile(name, flag, perm)
	if err != nil {
		return nil, err
	}
	if mut {
		if !existed && flag&os.O_CREATE != 0 {
			d.add(JEntry{Op: "create", Path: name})
		} else if existed && flag&os.O_TRUNC != 0 {
			d.add(JEntry{Op: "trunc", Path: name})
		}
	}
	sf := &File{f: f, name: name, node: ssched.CurrentNode(), append: flag&os.O_APPEND != 0}
	d.files[sf] = true
	return sf, nil
}

func Open(name string) (*File, error) { return OpenFile(name, os.O_RDONLY, 0) }
func Create(name string) (*File, error) {
	return OpenFile(name, os.O_RDWR|os.O_CREATE|os.O_TRUNC, 0666)
}

func (f *File) Name() string               { return f.name }
func (f *File) Fd() uintptr                { return f.f.Fd() }
func (f *File) Stat() (os.FileInfo, error) { return f.f.Stat() }
func (f *File) Read(b []byte) (int, error) {
	ssched.Yield()
	return f.f.Read(b)
}
func (f *File) ReadAt(b []byte, off int64) (int, error) {
	ssched.Yield()
	return f.f.ReadAt(b, off)
}
func (f *File) Seek(off int64, whence int) (int64, error) { return f.f.Seek(off, whence) }
func (f *File) ReadDir(n int) ([]os.DirEntry, error)      { return f.f.ReadDir(n) }
func (f *File) Readdir(n int) ([]os.FileInfo, error)      { return f.f.Readdir(n) }
func (f *File) Readdirnames(n int) ([]string, error)      { return f.f.Readdirnames(n) }

func (f *File) pos() int64 {
	if f.append {
		st, err := f.f.Stat()
		if err != nil {
			return 0
		}
		return st.Size()
	}
	p, _ := f.f.Seek(0, io.SeekCurrent)
	return p
}

func (f *File) write(b []byte, off int64, at bool) (int, error) {
	ssched.Yield()
	d := D
	if f.closed {
		return 0, &os.PathError{Op: "write", Path: f.name, Err: os.ErrClosed}
	}
	if len(b) == 0 {
		return 0, nil
	}
	d.Stats.Writes++
	var ft *Fault
	if ft = d.fault("write", f.name, len(b)); ft != nil {
		if ft.Delay > 0 {
			d.Stats.Stalls++
			tok := ssched.PreBlock()
			time.Sleep(ft.Delay)
			ssched.PostBlock(tok)
			if !(ft.Crash || ft.Err != nil) {
				ft = nil
			}
		}
	}
	if ft != nil {
		k := ft.Short
		if k > len(b) {
			k = len(b)
		}
		if k < 0 {
			k = 0
		}
		if ft.Crash || ft.Err != nil {
			if k > 0 {
				if !at {
					off = f.pos()
					_, _ = f.f.Write(b[:k])
				} else {
					_, _ = f.f.WriteAt(b[:k], off)
				}
				cp := append([]byte(nil), b[:k]...)
				d.add(JEntry{Op: "write", Path: f.name, Off: off, Data: cp})
			}
			if ft.Crash {
				d.Stats.Torn++
				d.crash()
			}
			d.Stats.Errors++
			return k, &os.PathError{Op: "write", Path: f.name, Err: ft.Err}
		}
	}
	var n int
	var err error
	if !at {
		off = f.pos()
		n, err = f.f.Write(b)
	} else {
		n, err = f.f.WriteAt(b, off)
	}
	if n > 0 {
		cp := append([]byte(nil), b[:n]...)
		d.add(JEntry{Op: "write", Path: f.name, Off: off, Data: cp})
	}
	return n, err
}

func (f *File) Write(b []byte) (int, error)              { return f.write(b, 0, false) }
func (f *File) WriteAt(b []byte, off int64) (int, error) { return f.write(b, off, true) }
func (f *File) WriteString(s string) (int, error)        { return f.write([]byte(s), 0, false) }

func (f *File) Truncate(size int64) error {
	ssched.Yield()
	d := D
	if ft := d.fault("truncate", f.name, 0); ft != nil {
		if ft.Crash {
			d.crash()
		}
		if ft.Err != nil {
			d.Stats.Errors++
			return &os.PathError{Op: "truncate", Path: f.name, Err: ft.Err}
		}
	}
	err := f.f.Truncate(size)
	if err == nil {
		d.add(JEntry{Op: "truncate", Path: f.name, Size: size})
	}
	return err
}

func (f *File) Sync() error {
	ssched.Yield()
	d := D
	d.Stats.Syncs++
	if ft := d.fault("sync", f.name, 0); ft != nil {
		if ft.Crash {
			d.crash()
		}
		if ft.Err != nil {
			d.Stats.Errors++
			return &os.PathError{Op: "sync", Path: f.name, Err: ft.Err}
		}
	}
	d.add(JEntry{Op: "sync", Path: f.name})
	return nil
}

func (f *File) Close() error {
	ssched.Yield()
	if f.closed {
		return &os.PathError{Op: "close", Path: f.name, Err: os.ErrClosed}
	}
	f.closed = true
	delete(D.files, f)
	D.add(JEntry{Op: "close", Path: f.name})
	return f.f.Close()
}

// ---------------------------------------------------------------------------------------------
// directory operations

func Stat(name string) (os.FileInfo, error)  { ssched.Yield(); return os.Stat(name) }
func Lstat(name string) (os.FileInfo, error) { ssched.Yield(); return os.Lstat(name) }
func ReadFile(name string) ([]byte, error)   { ssched.Yield(); return os.ReadFile(name) }
func ReadDir(name string) ([]os.DirEntry, error) {
	ssched.Yield()
	return os.ReadDir(name)
}

func WriteFile(name string, data []byte, perm os.FileMode) error {
	f, err := OpenFile(name, os.O_WRONLY|os.O_CREATE|os.O_TRUNC, perm)
	if err != nil {
		return err
	}
	_, err = f.Write(data)
	if err1 := f.Close(); err1 != nil && err == nil {
		err = err1
	}
	return err
}

func dirop(op, path, path2 string, do func() error) error {
	ssched.Yield()
	d := D
	if ft := d.fault(op, path, 0); ft != nil {
		if ft.Crash {
			d.crash()
		}
		if ft.Err != nil {
			d.Stats.Errors++
			return &os.PathError{Op: op, Path: path, Err: ft.Err}
		}
	}
	err := do()
	if err == nil {
		d.add(JEntry{Op: op, Path: path, Path2: path2})
	}
	return err
}

func Remove(name string) error {
	D.Stats.Removes++
	return dirop("remove", name, "", func() error { return os.Remove(name) })
}
func RemoveAll(name string) error {
	return dirop("remove", name, "", func() error { return os.RemoveAll(name) })
}
func Rename(o, n string) error {
	D.Stats.Renames++
	return dirop("rename", o, n, func() error { return os.Rename(o, n) })
}
func Mkdir(name string, perm os.FileMode) error {
	return dirop("mkdir", name, "", func() error { return os.Mkdir(name, perm) })
}
func MkdirAll(name string, perm os.FileMode) error {
	return dirop("mkdir", name, "", func() error { return os.MkdirAll(name, perm) })
}
func Truncate(name string, size int64) error {
	ssched.Yield()
	err := os.Truncate(name, size)
	if err == nil {
		D.add(JEntry{Op: "truncate", Path: name, Size: size})
	}
	return err
}

var (
	EIO    error = syscall.EIO
	ENOSPC error = syscall.ENOSPC
)

var _ = errors.New
var _ fs.FileInfo
