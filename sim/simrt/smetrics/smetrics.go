// Package smetrics stands in for runtime/metrics inside the simulation: the values of the Go
// runtime's own counters (heap sizes, goroutine counts, scheduler latencies) differ from process
// to process and would make a run depend on more than its seed. Read reports every sample as
// unsupported (KindBad), which the code under test treats as "no value".
package smetrics

import "runtime/metrics"

type Sample = metrics.Sample
type Value = metrics.Value
type ValueKind = metrics.ValueKind
type Float64Histogram = metrics.Float64Histogram
type Description = metrics.Description

const (
	KindBad              = metrics.KindBad
	KindUint64           = metrics.KindUint64
	KindFloat64          = metrics.KindFloat64
	KindFloat64Histogram = metrics.KindFloat64Histogram
)

func Read(m []Sample) {
	for i := range m {
		m[i].Value = Value{}
	}
}

func All() []Description { return nil }
