// Package ssched is the cooperative, seeded scheduler of the slock simulator.
//
// Rule: between two scheduling decisions exactly one task (instrumented goroutine) executes
// instrumented code. Every decision is drawn from a PRNG seeded by the run's seed, so a seed is
// one execution. It must run inside a testing/synctest bubble: the dispatcher uses synctest.Wait
// to learn that every other goroutine is durably blocked, and the bubble's fake clock is the
// only clock.
package ssched

import (
	"fmt"
	"hash/fnv"
	"os"
	"reflect"
	"runtime"
	"sort"
	"strings"
	"sync"
	"testing/synctest"
	"time"
)

// ---------------------------------------------------------------------------------------------
// PRNG (splitmix64 / xorshift), sub-streams

type Rand struct{ s uint64 }

func splitmix(x *uint64) uint64 {
	*x += 0x9E3779B97F4A7C15
	z := *x
	z = (z ^ (z >> 30)) * 0xBF58476D1CE4E5B9
	z = (z ^ (z >> 27)) * 0x94D049BB133111EB
	return z ^ (z >> 31)
}

func NewRand(seed uint64) *Rand {
	r := &Rand{seed}
	splitmix(&r.s)
	return r
}

func (r *Rand) Uint64() uint64 { return splitmix(&r.s) }
func (r *Rand) Intn(n int) int {
	if n <= 0 {
		return 0
	}
	return int(r.Uint64() % uint64(n))
}
func (r *Rand) Int63() int64 { return int64(r.Uint64() >> 1) }
func (r *Rand) Float64() float64 {
	return float64(r.Uint64()>>11) / float64(1<<53)
}
func (r *Rand) Chance(permille int) bool { return r.Intn(1000) < permille }

// Sub derives an independent stream from a seed and a name.
func Sub(seed uint64, name string) *Rand {
	h := fnv.New64a()
	h.Write([]byte(name))
	return NewRand(seed ^ h.Sum64()*0x9E3779B97F4A7C15)
}

// ---------------------------------------------------------------------------------------------

type Task struct {
	ID     int
	Node   int
	Name   string
	wake   chan struct{}
	prio   int
	nchild int
	// Cur is a free slot for the harness (e.g. "request being executed by this task").
	Cur any
}

const (
	StratRTB = "rtb" // run to block, random among ready
	StratRP  = "rp"  // random preemption with probability Permille at every preemption point
	StratPCT = "pct" // random priorities, D priority change points
)

type Config struct {
	Seed     uint64
	Strategy string
	Permille int   // RP
	D        int   // PCT change points
	Horizon  int64 // PCT: expected number of preemption points
	MaxSteps uint64
	TraceAll bool // hash every dispatch decision
}

type PanicInfo struct {
	Task  string
	Node  int
	Value string
	Stack string
}

type Sched struct {
	cfg      Config
	mu       sync.Mutex // protects ready/live only (parkers race with each other, never with SUT code)
	ready    []*Task
	poke     chan struct{}
	Seq      uint64
	Current  *Task
	Steps    uint64
	Switches uint64
	Points   uint64 // preemption points passed
	nextID   int
	live     int
	rng      *Rand
	fast     int
	noPre    int
	dead     map[int]bool
	changeAt map[uint64]bool
	lowPrio  int
	rootTask Task
	last     *Task
	// rootForked: the dispatcher itself started a task (from until/OnIdle); it must wait for
	// the new goroutine to park before looking at the ready set.
	rootForked bool

	OnDispatch []func(t *Task)
	OnIdle     []func() bool
	OnExit     []func(t *Task)
	Panics     []PanicInfo
	Rogue      int
	rogueChk   bool
	curG       int64

	hash    uint64
	Events  uint64
	LogSink func(string)
	Stopped bool
}

var S *Sched

func New(cfg Config) *Sched {
	s := &Sched{cfg: cfg, poke: make(chan struct{}, 1), rng: Sub(cfg.Seed, "sched"), dead: map[int]bool{}, hash: 1469598103934665603}
	if cfg.Strategy == "" {
		s.cfg.Strategy = StratRTB
	}
	if s.cfg.Strategy == StratPCT {
		s.changeAt = map[uint64]bool{}
		h := cfg.Horizon
		if h <= 0 {
			h = 20000
		}
		r := Sub(cfg.Seed, "pct")
		for i := 0; i < cfg.D; i++ {
			s.changeAt[uint64(r.Int63()%h)+1] = true
		}
	}
	s.rogueChk = os.Getenv("SIM_ROGUE") != ""
	S = s
	return s
}

// Trace adds a line to the run's event log hash (and to the sink, if any). It never draws
// from a PRNG and never reads a clock.
func (s *Sched) Trace(line string) {
	s.Events++
	for i := 0; i < len(line); i++ {
		s.hash ^= uint64(line[i])
		s.hash *= 1099511628211
	}
	s.hash ^= '\n'
	s.hash *= 1099511628211
	if s.LogSink != nil {
		s.LogSink(line)
	}
}

func Trace(line string) {
	if S != nil {
		S.Trace(line)
	}
}

func (s *Sched) Hash() string { return fmt.Sprintf("%016x", s.hash) }

func (s *Sched) pokeRoot() {
	select {
	case s.poke <- struct{}{}:
	default:
	}
}

func goid() int64 {
	var buf [64]byte
	n := runtime.Stack(buf[:], false)
	// "goroutine 123 ["
	f := strings.Fields(string(buf[:n]))
	var id int64
	if len(f) > 1 {
		fmt.Sscan(f[1], &id)
	}
	return id
}

func (s *Sched) park(t *Task) {
	s.mu.Lock()
	s.ready = append(s.ready, t)
	s.mu.Unlock()
	s.pokeRoot()
	<-t.wake
	if s.rogueChk {
		s.curG = goid()
	}
	if s.dead[t.Node] {
		runtime.Goexit()
	}
}

// Yield is a preemption point executed by the current task: the first thing every shim
// operation does.
func Yield() {
	s := S
	if s == nil {
		return
	}
	t := s.Current
	if t == nil {
		return
	}
	if s.rogueChk && goid() != s.curG {
		s.Rogue++
	}
	if s.dead[t.Node] {
		if s.noPre > 0 {
			return
		}
		runtime.Goexit()
	}
	if s.noPre > 0 {
		return
	}
	s.Points++
	s.fast++
	pre := false
	switch s.cfg.Strategy {
	case StratRP:
		pre = s.rng.Intn(1000) < s.cfg.Permille
	case StratPCT:
		if s.changeAt[s.Points] {
			s.lowPrio--
			t.prio = s.lowPrio
			pre = true
		}
	}
	if s.fast >= 2000 {
		pre = true
		if s.cfg.Strategy == StratPCT {
			s.lowPrio--
			t.prio = s.lowPrio
		}
	}
	if !pre {
		return
	}
	s.fast = 0
	s.park(t)
}

// NoPreempt runs f with preemption disabled (monitors, harness bookkeeping).
func NoPreempt(f func()) {
	if S == nil {
		f()
		return
	}
	S.noPre++
	defer func() { S.noPre-- }()
	f()
}

type Tok struct {
	me  *Task
	seq uint64
}

func PreBlock() Tok {
	if S == nil {
		return Tok{}
	}
	return Tok{S.Current, S.Seq}
}

// PostBlock: after a possibly-blocking native operation. If anything was dispatched meanwhile
// the caller is not the current task any more and parks before touching shared state.
func PostBlock(t Tok) {
	if S == nil || t.me == nil {
		return
	}
	if S.Seq != t.seq || S.Current != t.me {
		S.park(t.me)
	}
}

// Block waits on a (durably blocking) channel under the post-block rule.
func Block(ch <-chan struct{}) {
	t := PreBlock()
	<-ch
	PostBlock(t)
}

func Recv[T any](ch <-chan T) T {
	Yield()
	t := PreBlock()
	v := <-ch
	PostBlock(t)
	return v
}
func Recv2[T any](ch <-chan T) (T, bool) {
	Yield()
	t := PreBlock()
	v, ok := <-ch
	PostBlock(t)
	return v, ok
}
func Send[T any](ch chan<- T, v T) {
	Yield()
	t := PreBlock()
	ch <- v
	PostBlock(t)
}

// Close is close(ch) as a preemption point.
func Close[T any](ch chan T) {
	Yield()
	close(ch)
}

// SelectStart returns the index of the case polled first by a rewritten multi-case select.
func SelectStart(n int) int {
	Yield()
	if S == nil || n <= 1 {
		return 0
	}
	return Sub(S.cfg.Seed^S.Points*0x9E3779B97F4A7C15, "select").Intn(n)
}

func Fork() *Task {
	s := S
	if s == nil {
		return nil
	}
	s.mu.Lock()
	s.nextID++
	node := 0
	name := "root"
	var parent *Task
	if s.Current != nil {
		parent = s.Current
	} else {
		parent = &s.rootTask
		s.rootForked = true
	}
	node = parent.Node
	parent.nchild++
	name = fmt.Sprintf("%s/%d", parent.Name, parent.nchild)
	t := &Task{ID: s.nextID, Node: node, Name: name, wake: make(chan struct{}, 1)}
	if s.cfg.Strategy == StratPCT {
		t.prio = 1 + s.rng.Intn(1<<20)
	}
	s.live++
	s.mu.Unlock()
	return t
}

func enter(t *Task) {
	if t == nil {
		return
	}
	S.park(t)
}

func exit(t *Task) {
	if t == nil {
		return
	}
	s := S
	if r := recover(); r != nil {
		buf := make([]byte, 16384)
		n := runtime.Stack(buf, false)
		if !s.dead[t.Node] {
			s.Panics = append(s.Panics, PanicInfo{Task: t.Name, Node: t.Node, Value: fmt.Sprint(r), Stack: string(buf[:n])})
			s.Trace(fmt.Sprintf("PANIC task=%s node=%d %v", t.Name, t.Node, r))
		}
	}
	for _, f := range s.OnExit {
		f(t)
	}
	s.mu.Lock()
	s.live--
	s.mu.Unlock()
	if s.Current == t {
		s.Current = nil
	}
	s.pokeRoot()
}

func Go0(t *Task, f func())                         { enter(t); defer exit(t); f() }
func Go1[A any](t *Task, f func(A), a A)            { enter(t); defer exit(t); f(a) }
func Go2[A, B any](t *Task, f func(A, B), a A, b B) { enter(t); defer exit(t); f(a, b) }
func Go3[A, B, C any](t *Task, f func(A, B, C), a A, b B, c C) {
	enter(t)
	defer exit(t)
	f(a, b, c)
}
func Go4[A, B, C, D any](t *Task, f func(A, B, C, D), a A, b B, c C, d D) {
	enter(t)
	defer exit(t)
	f(a, b, c, d)
}
func Go5[A, B, C, D, E any](t *Task, f func(A, B, C, D, E), a A, b B, c C, d D, e E) {
	enter(t)
	defer exit(t)
	f(a, b, c, d, e)
}
func Go6[A, B, C, D, E, F any](t *Task, f func(A, B, C, D, E, F), a A, b B, c C, d D, e E, g F) {
	enter(t)
	defer exit(t)
	f(a, b, c, d, e, g)
}

// Spawn starts a harness-level task on the caller's node.
func Spawn(f func()) *Task { t := Fork(); go Go0(t, f); return t }

// SpawnOn starts a task that belongs to the given node.
func SpawnOn(node int, name string, f func()) *Task {
	t := Fork()
	t.Node = node
	if name != "" {
		t.Name = name
	}
	go Go0(t, f)
	return t
}

func CurrentNode() int {
	if S == nil || S.Current == nil {
		return 0
	}
	return S.Current.Node
}

func CurrentTask() *Task {
	if S == nil {
		return nil
	}
	return S.Current
}

// Kill marks a node dead: each of its tasks exits at its next shim operation; tasks blocked
// forever are abandoned.
func (s *Sched) Kill(node int)      { s.dead[node] = true }
func (s *Sched) Dead(node int) bool { return s.dead[node] }
func NodeDead(node int) bool        { return S != nil && S.dead[node] }
func (s *Sched) Live() int          { s.mu.Lock(); defer s.mu.Unlock(); return s.live }
func (s *Sched) ReadyLen() int      { s.mu.Lock(); defer s.mu.Unlock(); return len(s.ready) }

// Loop is the root dispatcher. until() is evaluated whenever everything is at rest.
// It returns "done", "steps" (step budget exhausted) or "stopped".
func (s *Sched) Loop(until func() bool, guard time.Duration) string {
	end := time.Now().Add(guard)
	for {
		synctest.Wait()
		// everything else is durably blocked now: nobody is current, a pending poke is stale
		s.Current = nil
		select {
		case <-s.poke:
		default:
		}
		if until() {
			return "done"
		}
		if s.rootForked {
			s.rootForked = false
			continue
		}
		if s.cfg.MaxSteps > 0 && s.Steps >= s.cfg.MaxSteps {
			return "steps"
		}
		s.mu.Lock()
		n := len(s.ready)
		s.mu.Unlock()
		if n == 0 {
			progressed := false
			for _, f := range s.OnIdle {
				if f() {
					progressed = true
				}
			}
			if progressed || s.rootForked {
				s.rootForked = false
				continue
			}
			if !time.Now().Before(end) {
				return "guard"
			}
			s.Seq++
			// everything durably blocked: the fake clock advances to the next timer
			tm := time.NewTimer(time.Until(end))
			select {
			case <-s.poke:
			case <-tm.C:
			}
			tm.Stop()
			continue
		}
		s.mu.Lock()
		sort.Slice(s.ready, func(i, j int) bool { return s.ready[i].ID < s.ready[j].ID })
		i := 0
		if s.cfg.Strategy == StratPCT {
			for j, t := range s.ready {
				if t.prio > s.ready[i].prio {
					i = j
				}
			}
		} else {
			i = s.rng.Intn(len(s.ready))
		}
		t := s.ready[i]
		s.ready = append(s.ready[:i], s.ready[i+1:]...)
		s.mu.Unlock()
		s.Seq++
		if s.last != t {
			s.Switches++
		}
		s.last = t
		s.Current = t
		s.Steps++
		s.fast = 0
		if s.cfg.TraceAll {
			ids := ""
			for _, r := range s.ready {
				ids += fmt.Sprintf(" %d", r.ID)
			}
			s.Trace(fmt.Sprintf("D %d t%d n%d pts=%d rest=[%s]", s.Steps, t.ID, t.Node, s.Points, ids))
		} else {
			s.hash ^= uint64(t.ID)
			s.hash *= 1099511628211
		}
		for _, f := range s.OnDispatch {
			f(t)
		}
		t.wake <- struct{}{}
	}
}

// ---------------------------------------------------------------------------------------------
// deterministic map iteration

// SortedKeys returns the keys of m in a deterministic order.
func SortedKeys[M ~map[K]V, K comparable, V any](m M) []K {
	keys := make([]K, 0, len(m))
	for k := range m {
		keys = append(keys, k)
	}
	if len(keys) < 2 {
		return keys
	}
	var zero K
	switch any(zero).(type) {
	case string:
		sort.Slice(keys, func(i, j int) bool { return any(keys[i]).(string) < any(keys[j]).(string) })
		return keys
	case int64:
		sort.Slice(keys, func(i, j int) bool { return any(keys[i]).(int64) < any(keys[j]).(int64) })
		return keys
	case [16]byte:
		sort.Slice(keys, func(i, j int) bool {
			a, b := any(keys[i]).([16]byte), any(keys[j]).([16]byte)
			return string(a[:]) < string(b[:])
		})
		return keys
	}
	rk := reflect.TypeOf(zero).Kind()
	switch rk {
	case reflect.Int, reflect.Int8, reflect.Int16, reflect.Int32, reflect.Int64:
		sort.Slice(keys, func(i, j int) bool { return reflect.ValueOf(keys[i]).Int() < reflect.ValueOf(keys[j]).Int() })
	case reflect.Uint, reflect.Uint8, reflect.Uint16, reflect.Uint32, reflect.Uint64, reflect.Uintptr:
		sort.Slice(keys, func(i, j int) bool { return reflect.ValueOf(keys[i]).Uint() < reflect.ValueOf(keys[j]).Uint() })
	case reflect.Ptr, reflect.UnsafePointer, reflect.Chan, reflect.Interface:
		panic("ssched.SortedKeys: pointer-like map key has no deterministic order")
	default:
		sort.Slice(keys, func(i, j int) bool { return fmt.Sprintf("%v", keys[i]) < fmt.Sprintf("%v", keys[j]) })
	}
	return keys
}

// PickWaiter chooses which of n blocked waiters is woken (mutex hand-off, cond signal).
func (s *Sched) PickWaiter(n int) int {
	if n <= 1 {
		return 0
	}
	return s.rng.Intn(n)
}
