// Package ssync replaces "sync" in instrumented code. Blocking is a durable channel wait (so the
// synctest bubble sees it), every operation is a preemption point, and which waiter is woken
// is a scheduler decision.
package ssync

import (
	"sync"

	"github.com/snower/slock/simrt/ssched"
)

type Locker = sync.Locker
type Pool = sync.Pool
type Map = sync.Map

func pick(n int) int {
	if n <= 1 || ssched.S == nil {
		return 0
	}
	return ssched.S.PickWaiter(n)
}

// OnAnyRelease, if set by the harness, runs inside every Mutex.Unlock while the mutex is still held.
var OnAnyRelease func(m *Mutex)

// Mutex: zero value usable, copyable before first use, may be unlocked by another goroutine.
type Mutex struct {
	locked  bool
	waiters []chan struct{}
	// OnRelease, if set by the harness, runs inside Unlock while the mutex is still held.
	OnRelease func()
	// OnAcquire, if set by the harness, runs right after the mutex was acquired.
	OnAcquire func()
}

func (m *Mutex) Lock() {
	ssched.Yield()
	for m.locked {
		ch := make(chan struct{})
		m.waiters = append(m.waiters, ch)
		ssched.Block(ch)
	}
	m.locked = true
	if m.OnAcquire != nil {
		m.OnAcquire()
	}
}

func (m *Mutex) TryLock() bool {
	ssched.Yield()
	if m.locked {
		return false
	}
	m.locked = true
	if m.OnAcquire != nil {
		m.OnAcquire()
	}
	return true
}

func (m *Mutex) Held() bool { return m.locked }

func (m *Mutex) Unlock() {
	if !m.locked {
		panic("sync: unlock of unlocked mutex")
	}
	if m.OnRelease != nil {
		m.OnRelease()
	}
	if OnAnyRelease != nil {
		OnAnyRelease(m)
	}
	m.locked = false
	if n := len(m.waiters); n > 0 {
		i := pick(n)
		ch := m.waiters[i]
		m.waiters = append(m.waiters[:i], m.waiters[i+1:]...)
		close(ch)
	}
	ssched.Yield()
}

type RWMutex struct {
	w       bool
	r       int
	wwait   int
	waiters []chan struct{}
}

func (m *RWMutex) wakeAll() {
	for _, ch := range m.waiters {
		close(ch)
	}
	m.waiters = nil
}
func (m *RWMutex) wait() {
	ch := make(chan struct{})
	m.waiters = append(m.waiters, ch)
	ssched.Block(ch)
}
func (m *RWMutex) Lock() {
	ssched.Yield()
	m.wwait++
	for m.w || m.r > 0 {
		m.wait()
	}
	m.wwait--
	m.w = true
}
func (m *RWMutex) TryLock() bool {
	ssched.Yield()
	if m.w || m.r > 0 {
		return false
	}
	m.w = true
	return true
}
func (m *RWMutex) Unlock() {
	if !m.w {
		panic("sync: Unlock of unlocked RWMutex")
	}
	m.w = false
	m.wakeAll()
	ssched.Yield()
}
func (m *RWMutex) RLock() {
	ssched.Yield()
	for m.w || m.wwait > 0 {
		m.wait()
	}
	m.r++
}
func (m *RWMutex) TryRLock() bool {
	ssched.Yield()
	if m.w || m.wwait > 0 {
		return false
	}
	m.r++
	return true
}
func (m *RWMutex) RUnlock() {
	if m.r <= 0 {
		panic("sync: RUnlock of unlocked RWMutex")
	}
	m.r--
	if m.r == 0 {
		m.wakeAll()
	}
	ssched.Yield()
}

type rlocker RWMutex

func (r *rlocker) Lock()           { (*RWMutex)(r).RLock() }
func (r *rlocker) Unlock()         { (*RWMutex)(r).RUnlock() }
func (m *RWMutex) RLocker() Locker { return (*rlocker)(m) }

type WaitGroup struct {
	n       int
	waiters []chan struct{}
}

func (wg *WaitGroup) Add(d int) {
	ssched.Yield()
	wg.n += d
	if wg.n < 0 {
		panic("sync: negative WaitGroup counter")
	}
	if wg.n == 0 {
		for _, ch := range wg.waiters {
			close(ch)
		}
		wg.waiters = nil
	}
}
func (wg *WaitGroup) Done() { wg.Add(-1) }
func (wg *WaitGroup) Wait() {
	ssched.Yield()
	for wg.n > 0 {
		ch := make(chan struct{})
		wg.waiters = append(wg.waiters, ch)
		ssched.Block(ch)
	}
}
func (wg *WaitGroup) Go(f func()) {
	wg.Add(1)
	go ssched.Go0(ssched.Fork(), func() { defer wg.Done(); f() })
}

type Once struct {
	done bool
	m    Mutex
}

func (o *Once) Do(f func()) {
	ssched.Yield()
	if o.done {
		return
	}
	o.m.Lock()
	defer o.m.Unlock()
	if !o.done {
		defer func() { o.done = true }()
		f()
	}
}

type Cond struct {
	L       Locker
	waiters []chan struct{}
}

func NewCond(l Locker) *Cond { return &Cond{L: l} }
func (c *Cond) Wait() {
	ch := make(chan struct{})
	c.waiters = append(c.waiters, ch)
	c.L.Unlock()
	ssched.Block(ch)
	c.L.Lock()
}
func (c *Cond) Signal() {
	ssched.Yield()
	if n := len(c.waiters); n > 0 {
		i := pick(n)
		ch := c.waiters[i]
		c.waiters = append(c.waiters[:i], c.waiters[i+1:]...)
		close(ch)
	}
}
func (c *Cond) Broadcast() {
	ssched.Yield()
	for _, ch := range c.waiters {
		close(ch)
	}
	c.waiters = nil
}

func OnceFunc(f func()) func() {
	var o Once
	return func() { o.Do(f) }
}
