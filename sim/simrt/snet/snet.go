// Package snet replaces "net": simulated TCP between nodes of one simulated run.
//
// A connection is a pair of byte pipes (one per direction). Bytes are never lost, duplicated or
// reordered inside a live connection (TCP); what is injected: connect refusal, latency,
// arbitrary read fragmentation, reset at a byte offset, stalls, partitions (silence, then error
// after a retransmission timeout), back-pressure, node death.
package snet

import (
	"errors"
	"fmt"
	"io"
	"net"
	"os"
	"strconv"
	"time"

	"github.com/snower/slock/simrt/ssched"
)

type Addr = net.Addr
type TCPAddr = net.TCPAddr
type TCPConn = net.TCPConn
type Conn = net.Conn
type Listener = net.Listener
type Error = net.Error
type OpError = net.OpError
type IP = net.IP

var ErrClosed = net.ErrClosed

func ResolveTCPAddr(n, a string) (*net.TCPAddr, error) { return net.ResolveTCPAddr(n, a) }
func JoinHostPort(h, p string) string                  { return net.JoinHostPort(h, p) }
func SplitHostPort(hp string) (string, string, error)  { return net.SplitHostPort(hp) }
func ParseIP(s string) net.IP                          { return net.ParseIP(s) }

type timeoutError struct{ msg string }

func (e *timeoutError) Error() string   { return e.msg }
func (e *timeoutError) Timeout() bool   { return true }
func (e *timeoutError) Temporary() bool { return true }
func (e *timeoutError) Is(t error) bool { return t == os.ErrDeadlineExceeded }

var errReset = errors.New("read: connection reset by peer")
var errPipe = errors.New("write: broken pipe")
var errClosedConn = fmt.Errorf("use of closed network connection: %w", net.ErrClosed)

type seg struct {
	data []byte
	at   time.Time
}

// pipe carries bytes in one direction.
type pipe struct {
	segs      []seg
	size      int
	eof       bool // writer closed cleanly
	reset     bool // connection reset: reader gets an error once delivered bytes are drained
	resetAt   time.Time
	lastAt    time.Time
	waiters   []chan struct{}
	wwait     []chan struct{} // writers blocked on back-pressure
	written   int64
	delivered int64
	cutAt     int64 // >0: reset the connection after this many bytes have been written in this direction
}

func (p *pipe) wake() {
	for _, w := range p.waiters {
		close(w)
	}
	p.waiters = nil
}
func (p *pipe) wakeWriters() {
	for _, w := range p.wwait {
		close(w)
	}
	p.wwait = nil
}

type SimConn struct {
	ID            int
	Side          int // 0 dialer, 1 acceptor
	Node          int
	Peer          *SimConn
	in, out       *pipe
	local, remote *net.TCPAddr
	closed        bool
	rdl, wdl      time.Time
	// MaxRead > 0 caps the bytes returned by one Read (harness-side fragmentation control).
	MaxRead int
	// Label is free for the harness.
	Label string
}

// TapEvent is delivered for every Write accepted by the transport.
type TapEvent struct {
	Conn *SimConn
	Data []byte
}

type Net struct {
	rng            *ssched.Rand
	listeners      map[string]*SimListener
	Conns          []*SimConn
	nextID         int
	nextPort       int
	MinLatency     time.Duration
	Jitter         time.Duration
	FragPermil     int // probability that a Read is cut short
	CoalescePermil int // probability that a Read goes on into the next write that has arrived
	Window         int // >0: Write blocks while the peer has more than Window undelivered bytes
	RTO            time.Duration
	blocked        map[[2]int]bool
	Tap            func(ev TapEvent)
	// RefuseDial, if set, decides whether a Dial fails (connect refusal / timeout faults).
	RefuseDial func(fromNode int, addr string) bool
	// OnDial, if set, sees both ends of every new connection (the harness plans cuts there).
	OnDial func(dialer, acceptor *SimConn)
	Stats  struct {
		Dials, Refused, Resets, ShortReads, Coalesced, Writes, Bytes, PartitionDrops, Backpressure int
	}
}

var N *Net

func Reset(seed uint64) *Net {
	N = &Net{rng: ssched.Sub(seed, "net"), listeners: map[string]*SimListener{}, nextPort: 40000, blocked: map[[2]int]bool{}, RTO: 60 * time.Second}
	return N
}

func portKey(a string) string {
	_, p, err := net.SplitHostPort(a)
	if err != nil {
		return a
	}
	return p
}

// ---------------------------------------------------------------------------------------------
// listener

type SimListener struct {
	Node    int
	addr    *net.TCPAddr
	key     string
	queue   []*SimConn
	closed  bool
	waiters []chan struct{}
}

func Listen(network, address string) (net.Listener, error) {
	ssched.Yield()
	key := portKey(address)
	if _, ok := N.listeners[key]; ok {
		return nil, fmt.Errorf("listen tcp %s: bind: address already in use", address)
	}
	a, err := net.ResolveTCPAddr("tcp", address)
	if err != nil {
		return nil, err
	}
	l := &SimListener{Node: ssched.CurrentNode(), addr: a, key: key}
	N.listeners[key] = l
	return l, nil
}

func (l *SimListener) Accept() (net.Conn, error) {
	ssched.Yield()
	for {
		if l.closed {
			return nil, errClosedConn
		}
		if len(l.queue) > 0 {
			c := l.queue[0]
			l.queue = l.queue[1:]
			return c, nil
		}
		ch := make(chan struct{})
		l.waiters = append(l.waiters, ch)
		ssched.Block(ch)
	}
}
func (l *SimListener) wake() {
	for _, w := range l.waiters {
		close(w)
	}
	l.waiters = nil
}
func (l *SimListener) Close() error {
	ssched.Yield()
	if l.closed {
		return nil
	}
	l.closed = true
	if N.listeners[l.key] == l {
		delete(N.listeners, l.key)
	}
	for _, c := range l.queue {
		c.abort()
	}
	l.queue = nil
	l.wake()
	return nil
}
func (l *SimListener) Addr() net.Addr { return l.addr }

// ---------------------------------------------------------------------------------------------
// dial

func (n *Net) Partitioned(a, b int) bool {
	if a == b {
		return false
	}
	if a > b {
		a, b = b, a
	}
	return n.blocked[[2]int{a, b}]
}

// Partition cuts (or heals) traffic between two nodes. Existing connections go silent.
func (n *Net) Partition(a, b int, on bool) {
	if a > b {
		a, b = b, a
	}
	if on {
		n.blocked[[2]int{a, b}] = true
		return
	}
	delete(n.blocked, [2]int{a, b})
	now := time.Now()
	for _, c := range n.Conns {
		if c.Peer != nil && ((c.Node == a && c.Peer.Node == b) || (c.Node == b && c.Peer.Node == a)) {
			for i := range c.in.segs {
				if c.in.segs[i].at.After(now.Add(365 * 24 * time.Hour)) {
					c.in.segs[i].at = now
				}
			}
			c.in.wake()
		}
	}
}

func DialTimeout(network, address string, d time.Duration) (net.Conn, error) {
	ssched.Yield()
	n := N
	n.Stats.Dials++
	from := ssched.CurrentNode()
	l, ok := n.listeners[portKey(address)]
	refuse := !ok || l.closed || ssched.NodeDead(l.Node)
	if !refuse && n.RefuseDial != nil && n.RefuseDial(from, address) {
		refuse = true
	}
	if !refuse && n.Partitioned(from, l.Node) {
		n.Stats.Refused++
		if d <= 0 || d > n.RTO {
			d = n.RTO
		}
		sleep(d)
		return nil, &net.OpError{Op: "dial", Net: "tcp", Err: &timeoutError{"i/o timeout"}}
	}
	if refuse {
		n.Stats.Refused++
		return nil, &net.OpError{Op: "dial", Net: "tcp", Err: errors.New("connect: connection refused")}
	}
	n.nextPort++
	n.nextID++
	la, _ := net.ResolveTCPAddr("tcp", "127.0.0.1:"+strconv.Itoa(n.nextPort))
	ra := l.addr
	if ra.IP == nil || ra.IP.IsUnspecified() {
		ra, _ = net.ResolveTCPAddr("tcp", "127.0.0.1:"+strconv.Itoa(l.addr.Port))
	}
	p1, p2 := &pipe{}, &pipe{}
	cl := &SimConn{ID: n.nextID, Side: 0, Node: from, in: p1, out: p2, local: la, remote: ra}
	sv := &SimConn{ID: n.nextID, Side: 1, Node: l.Node, in: p2, out: p1, local: ra, remote: la}
	cl.Peer, sv.Peer = sv, cl
	n.Conns = append(n.Conns, cl, sv)
	if n.OnDial != nil {
		n.OnDial(cl, sv)
	}
	l.queue = append(l.queue, sv)
	l.wake()
	return cl, nil
}

func Dial(network, address string) (net.Conn, error) { return DialTimeout(network, address, 0) }

func sleep(d time.Duration) {
	t := ssched.PreBlock()
	time.Sleep(d)
	ssched.PostBlock(t)
}

// waitOn blocks until ch is closed or the deadline passes (zero deadline: forever).
// It reports false on deadline.
func waitOn(ch chan struct{}, deadline time.Time) bool {
	if deadline.IsZero() {
		ssched.Block(ch)
		return true
	}
	d := time.Until(deadline)
	if d <= 0 {
		return false
	}
	tm := time.NewTimer(d)
	tok := ssched.PreBlock()
	ok := true
	select {
	case <-ch:
	case <-tm.C:
		ok = false
	}
	tm.Stop()
	ssched.PostBlock(tok)
	return ok
}

// ---------------------------------------------------------------------------------------------
// connection

func (c *SimConn) String() string {
	return fmt.Sprintf("conn%d.%d(n%d)", c.ID, c.Side, c.Node)
}

func (c *SimConn) Read(b []byte) (int, error) {
	ssched.Yield()
	if t := ssched.CurrentTask(); t != nil && t.Cur == nil {
		t.Cur = c // the task that reads a connection is that connection's handler
	}
	if len(b) == 0 {
		return 0, nil
	}
	n := N
	for {
		if c.closed {
			return 0, &net.OpError{Op: "read", Net: "tcp", Err: errClosedConn}
		}
		now := time.Now()
		if len(c.in.segs) > 0 {
			s := &c.in.segs[0]
			if s.at.After(now) {
				// not arrived yet: wait for its arrival (or a state change / deadline)
				ch := make(chan struct{})
				c.in.waiters = append(c.in.waiters, ch)
				until := s.at
				if !c.rdl.IsZero() && c.rdl.Before(until) {
					until = c.rdl
				}
				if until.After(now.Add(365 * 24 * time.Hour)) {
					// held by a partition: only a heal, reset or deadline wakes us
					if !waitOn(ch, c.rdl) {
						return 0, &net.OpError{Op: "read", Net: "tcp", Err: &timeoutError{"i/o timeout"}}
					}
					continue
				}
				waitOn(ch, until)
				if !c.rdl.IsZero() && !time.Now().Before(c.rdl) {
					return 0, &net.OpError{Op: "read", Net: "tcp", Err: &timeoutError{"i/o timeout"}}
				}
				continue
			}
			k := len(s.data)
			if k > len(b) {
				k = len(b)
			}
			// the first 64 bytes of a direction arrive in one piece (the server sniffs the protocol
			// from the size of its first read; a real client's first frame is one small segment)
			first := c.in.delivered < 64
			if !first && c.MaxRead > 0 && k > c.MaxRead {
				k = c.MaxRead
			}
			if !first && k > 1 && n.FragPermil > 0 && n.rng.Intn(1000) < n.FragPermil {
				k = 1 + n.rng.Intn(k)
				n.Stats.ShortReads++
			}
			copy(b, s.data[:k])
			whole := k == len(s.data)
			if whole {
				c.in.segs = c.in.segs[1:]
			} else {
				s.data = s.data[k:]
			}
			// coalescing: like a socket buffer, one Read may return the bytes of several writes that
			// have already arrived (never across the first 64 bytes, see above)
			for whole && !first && k < len(b) && len(c.in.segs) > 0 && !c.in.segs[0].at.After(now) && n.CoalescePermil > 0 && n.rng.Intn(1000) < n.CoalescePermil {
				s2 := &c.in.segs[0]
				m := len(s2.data)
				if m > len(b)-k {
					m = len(b) - k
				}
				if c.MaxRead > 0 && k+m > c.MaxRead {
					break
				}
				copy(b[k:], s2.data[:m])
				k += m
				n.Stats.Coalesced++
				if m == len(s2.data) {
					c.in.segs = c.in.segs[1:]
				} else {
					s2.data = s2.data[m:]
					whole = false
				}
			}
			c.in.size -= k
			c.in.delivered += int64(k)
			if len(c.in.wwait) > 0 {
				c.in.wakeWriters()
			}
			return k, nil
		}
		if c.in.reset && !c.in.resetAt.After(now) {
			return 0, &net.OpError{Op: "read", Net: "tcp", Err: errReset}
		}
		if c.in.eof {
			return 0, io.EOF
		}
		ch := make(chan struct{})
		c.in.waiters = append(c.in.waiters, ch)
		dl := c.rdl
		if c.in.reset {
			if dl.IsZero() || c.in.resetAt.Before(dl) {
				waitOn(ch, c.in.resetAt)
				continue
			}
		}
		if !waitOn(ch, dl) {
			return 0, &net.OpError{Op: "read", Net: "tcp", Err: &timeoutError{"i/o timeout"}}
		}
	}
}

func (c *SimConn) Write(b []byte) (int, error) {
	ssched.Yield()
	n := N
	if c.closed {
		return 0, &net.OpError{Op: "write", Net: "tcp", Err: errClosedConn}
	}
	if c.out.reset || c.out.eof || c.in.reset {
		return 0, &net.OpError{Op: "write", Net: "tcp", Err: errPipe}
	}
	if len(b) == 0 {
		return 0, nil
	}
	for n.Window > 0 && c.out.size > n.Window && !c.closed && !c.out.reset {
		n.Stats.Backpressure++
		ch := make(chan struct{})
		c.out.wwait = append(c.out.wwait, ch)
		if !waitOn(ch, c.wdl) {
			return 0, &net.OpError{Op: "write", Net: "tcp", Err: &timeoutError{"i/o timeout"}}
		}
	}
	if c.closed || c.out.reset {
		return 0, &net.OpError{Op: "write", Net: "tcp", Err: errPipe}
	}
	data := b
	cut := false
	if c.out.cutAt > 0 && c.out.written+int64(len(b)) >= c.out.cutAt {
		k := c.out.cutAt - c.out.written
		if k < 0 {
			k = 0
		}
		data = b[:k]
		cut = true
	}
	if len(data) > 0 {
		cp := make([]byte, len(data))
		copy(cp, data)
		now := time.Now()
		at := now
		if n.MinLatency > 0 || n.Jitter > 0 {
			at = now.Add(n.MinLatency)
			if n.Jitter > 0 {
				at = at.Add(time.Duration(n.rng.Int63() % int64(n.Jitter)))
			}
		}
		if at.Before(c.out.lastAt) {
			at = c.out.lastAt
		}
		if c.Peer != nil && n.Partitioned(c.Node, c.Peer.Node) {
			at = now.Add(100 * 365 * 24 * time.Hour)
			n.Stats.PartitionDrops++
		} else {
			c.out.lastAt = at
		}
		c.out.segs = append(c.out.segs, seg{cp, at})
		c.out.size += len(cp)
		c.out.written += int64(len(cp))
		n.Stats.Writes++
		n.Stats.Bytes += len(cp)
		if n.Tap != nil {
			n.Tap(TapEvent{c, cp})
		}
		c.out.wake()
	}
	if cut {
		c.ResetNow()
		return len(data), &net.OpError{Op: "write", Net: "tcp", Err: errPipe}
	}
	return len(b), nil
}

// CutAfter arranges a connection reset after k more bytes have been written by this side.
func (c *SimConn) CutAfter(k int64) { c.out.cutAt = c.out.written + k }

// ResetNow resets the connection in both directions: undelivered bytes towards the resetting
// side are lost, both ends get errors.
func (c *SimConn) ResetNow() {
	N.Stats.Resets++
	now := time.Now()
	for _, p := range []*pipe{c.in, c.out} {
		if !p.reset {
			p.reset = true
			p.resetAt = now
		}
		p.wake()
		p.wakeWriters()
	}
}

// abort is used for node death and listener close: the peer sees a reset.
func (c *SimConn) abort() {
	c.closed = true
	c.ResetNow()
}

func (c *SimConn) Close() error {
	ssched.Yield()
	if c.closed {
		return &net.OpError{Op: "close", Net: "tcp", Err: errClosedConn}
	}
	c.closed = true
	c.out.eof = true
	c.out.wake()
	// bytes the peer sent that we never read: the peer will see a reset on its next write (as TCP)
	if len(c.in.segs) > 0 {
		c.in.reset = true
		c.in.resetAt = time.Now()
	} else {
		c.in.eof = true
	}
	c.in.segs = nil
	c.in.size = 0
	c.in.wake()
	c.in.wakeWriters()
	return nil
}

func (c *SimConn) CloseWrite() error { c.out.eof = true; c.out.wake(); return nil }
func (c *SimConn) Closed() bool      { return c.closed }

func (c *SimConn) LocalAddr() net.Addr  { return c.local }
func (c *SimConn) RemoteAddr() net.Addr { return c.remote }
func (c *SimConn) SetDeadline(t time.Time) error {
	c.rdl, c.wdl = t, t
	c.in.wake()
	return nil
}
func (c *SimConn) SetReadDeadline(t time.Time) error  { c.rdl = t; c.in.wake(); return nil }
func (c *SimConn) SetWriteDeadline(t time.Time) error { c.wdl = t; return nil }

// Pending returns the number of undelivered bytes travelling towards this side.
func (c *SimConn) Pending() int { return c.in.size }

// KillNode resets every connection and listener of a dead node.
func (n *Net) KillNode(node int) {
	for _, k := range ssched.SortedKeys(n.listeners) {
		l := n.listeners[k]
		if l.Node == node {
			l.closed = true
			delete(n.listeners, k)
			for _, c := range l.queue {
				c.abort()
			}
			l.queue = nil
			l.wake()
		}
	}
	for _, c := range n.Conns {
		if c.Node == node && !c.closed {
			c.abort()
		}
	}
}

// Quiet reports whether no bytes are in flight anywhere.
func (n *Net) Quiet() bool {
	for _, c := range n.Conns {
		if !c.closed && c.in.size > 0 {
			return false
		}
	}
	return true
}
