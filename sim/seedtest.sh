#!/bin/bash
# seedtest.sh <worktree> <mutA|mutB|...> <property> [extra vcheck args]
# 1. confirms a seeded change in its scratch worktree: compiles, existing tests pass, its
#    demonstration fails with the change and passes without it;
# 2. applies it to /repo, runs the property's check, and undoes it straight afterwards;
# 3. files it under /verif/seeded/<property>-<name>/ (patch.diff, demo_test.go, meta.json).
set -u
WT=$1; M=$2; PROP=$3; shift 3
export GOFLAGS=-mod=mod GOPROXY=off GOSUMDB=off
VERIF=/verif
# checks run from a snapshot of the verifier when SIM_SNAPSHOT is set (sim/ can then be edited meanwhile)
SNAP=${SIM_SNAPSHOT:-$VERIF}
mkdir -p "$WT/.demos"; mv "$WT"/mut*_demo_test.go "$WT/.demos/" 2>/dev/null
DEMO="$WT/.demos/${M}_demo_test.go"
DIFF="$WT/$M.diff"
[ -f "$DIFF" ] || { echo "no diff $DIFF"; exit 2; }
cd "$WT" && git checkout -q -- . && rm -f server/zz_seed_demo_test.go
TESTNAME=$(grep -oE 'func (Test[A-Za-z0-9_]+)\(' "$DEMO" | head -1 | sed 's/func //; s/(//')
echo "== verify $WT $M (demo $TESTNAME)"
git apply "$DIFF" || { echo "VERIFY: diff does not apply"; exit 2; }
BUILD=ok; go build ./... >/tmp/seed_build.log 2>&1 || BUILD=fail
TESTS=ok; go test -vet=off -count=1 ./server ./protocol >/tmp/seed_tests.log 2>&1 || TESTS=fail
cp "$DEMO" server/zz_seed_demo_test.go
WITH=pass; go test -tags slockdemo -vet=off -count=1 -run "^${TESTNAME}\$" ./server >/tmp/seed_with.log 2>&1 || WITH=fail
git checkout -q -- .
WITHOUT=pass; go test -tags slockdemo -vet=off -count=1 -run "^${TESTNAME}\$" ./server >/tmp/seed_without.log 2>&1 || WITHOUT=fail
rm -f server/zz_seed_demo_test.go
echo "   build=$BUILD tests=$TESTS demo_with_change=$WITH demo_without=$WITHOUT"
CONFIRMED=no
[ $BUILD = ok ] && [ $TESTS = ok ] && [ $WITH = fail ] && [ $WITHOUT = pass ] && CONFIRMED=yes
echo "   confirmed=$CONFIRMED"
NAME="$PROP-$(basename $WT | sed 's/wt-//')-$M"
OUT="$VERIF/seeded/$NAME"
mkdir -p "$OUT"; cp "$DIFF" "$OUT/patch.diff"; cp "$DEMO" "$OUT/demo_test.go"
[ -f "$WT/NOTES.md" ] && cp "$WT/NOTES.md" "$OUT/NOTES.md"
DET=skipped; LINE=""
if [ $CONFIRMED = yes ]; then
  # the check runs against a scratch copy of /repo's working tree with the change applied (SIM_REPO),
  # so /repo itself is never modified and background runs that build from /repo are not disturbed
  SCR=$(mktemp -d /dev/shm/seedrepo-XXXXXX)
  rsync -a --exclude .git /repo/ "$SCR"/
  (cd "$SCR" && git init -q . 2>/dev/null; patch -p1 -s < "$DIFF") || { echo "cannot apply to scratch copy"; rm -rf "$SCR"; exit 2; }
  T0=$(date +%s)
  SIM_REPO="$SCR" SIM_EVIDENCE_DIR="$OUT/evidence" SIM_REPLAY_DIR="$OUT/replays" python3 $SNAP/sim/vcheck.py check $PROP --no-selftest "$@" >/tmp/seed_check_$PROP$M.log 2>&1; RC=$?
  T1=$(date +%s)
  rm -rf "$SCR"
  LINE=$(grep -E "^VIOLATION|class=" /tmp/seed_check_$PROP$M.log | head -4 | tr '\n' ' ' | cut -c1-600)
  tail -1 /tmp/seed_check_$PROP$M.log
  case $RC in 1) DET=detected;; 0) DET=missed;; *) DET="error($RC)";; esac
  echo "   check exit=$RC => $DET in $((T1-T0))s  $LINE"
  # replay files produced against a seeded tree are not findings of the real tree
fi
python3 - "$OUT" "$PROP" "$M" "$CONFIRMED" "$BUILD" "$TESTS" "$WITH" "$WITHOUT" "$DET" "$LINE" "$TESTNAME" "$*" <<'EOF'
import json,sys,os
out,prop,m,conf,build,tests,w,wo,det,line,tn,extra=sys.argv[1:13]
meta={"property":prop,"mutation":m,"confirmed":conf=="yes","compiles":build=="ok","existing_tests_pass":tests=="ok",
 "demo_test":tn,"demo_fails_with_change":w=="fail","demo_passes_without":wo=="pass",
 "ran":"scratch copy of /repo with patch.diff applied; SIM_REPO=<copy> python3 sim/vcheck.py check %s --no-selftest %s"%(prop,extra),
 "check_result":det,"first_violation":line}
n=os.path.join(out,"NOTES.md")
if os.path.exists(n):
    meta["needs_to_manifest"]="see NOTES.md (written by the sub-agent that produced the change)"
json.dump(meta,open(os.path.join(out,"meta.json"),"w"),indent=1)
EOF
