package server

// Simulation harness, part 4: oracles of the core world.

import (
	"fmt"

	"github.com/snower/slock/protocol"
)

type Monitor struct{}
type Model struct{}

func (cr *coreRun) attach() {
	if cr.body.NoMonitor {
		return
	}
	cr.ms = newMonitor(cr)
	cr.ms.attach()
}

// finalChecks runs after the drain: everything must have ended and been answered.
func (cr *coreRun) finalChecks() {
	w := cr.w
	// C03: exactly one terminal reply per request, at most one later EXPRIED notice, right client
	// requests whose LockId is used by a require-ack request on the same key get classes of their
	// own: the "awaits acknowledgement" state of a hold is established asynchronously (finding F66)
	ackLid := map[string]bool{}
	for _, r := range cr.h.order {
		if r.Op.Cmd == protocol.COMMAND_LOCK && r.Op.TFlag&tfAck != 0 {
			ackLid[fmt.Sprintf("%d/%d/%d", r.Op.Db, r.Op.Key, r.Op.Lid)] = true
		}
	}
	pre := func(r *ReqRec) string {
		if ackLid[fmt.Sprintf("%d/%d/%d", r.Op.Db, r.Op.Key, r.Op.Lid)] {
			return "ack_"
		}
		return ""
	}
	if cr.body.NoMonitor {
		// finding F8 without the monitor: a request that was never answered while its connection
		// received a reply under an id it did not send (or a second reply to another of its requests)
		for _, r := range cr.h.order {
			if !r.Sent || r.lost || len(r.Replies) > 0 || r.excused {
				continue
			}
			for i := range cr.h.stray {
				sr := &cr.h.stray[i]
				if sr.Conn == r.Client && sr.Ev > r.InvEv && !sr.Recycled {
					sr.Recycled, r.excused = true, true
					break
				}
			}
			if r.excused {
				continue
			}
			for _, o := range cr.h.order {
				if o != r && o.Client == r.Client && len(o.Replies) == 2 && o.Replies[1].Ev > r.InvEv && o.Replies[1].Result != protocol.RESULT_EXPRIED && !o.excused {
					// the second reply of that request is this one's
					o.Replies = o.Replies[:1]
					r.excused = true
					cr.h.stray = append(cr.h.stray, Reply{Conn: r.Client, Recycled: true, Result: 0, StrayRid: o.Id})
					break
				}
			}
		}
	}
	for _, r := range cr.h.order {
		if !r.Sent || r.lost {
			continue
		}
		if len(r.Replies) == 0 {
			if r.excused {
				continue // reported below as reply_from_recycled_command
			}
			w.violate("C03", pre(r)+"no_reply", "request %s was never answered", r)
			continue
		}
		for i, rep := range r.Replies {
			if rep.Conn != r.Client {
				w.violate("C03", "misrouted", "reply %d (result %d) to %s was delivered to client %d", i, rep.Result, r, rep.Conn)
			}
			if rep.CmdType != r.Op.Cmd {
				w.violate("C03", "wrong_type", "reply %d to %s has command type %d", i, r, rep.CmdType)
			}
		}
		first := r.Replies[0]
		if len(r.Replies) > 1 {
			granted := r.Op.Cmd == protocol.COMMAND_LOCK && (first.Result == protocol.RESULT_SUCCED || (first.Result == protocol.RESULT_LOCKED_ERROR && r.Op.Flag&protocol.LOCK_FLAG_UPDATE_WHEN_LOCKED != 0))
			if len(r.Replies) > 2 || r.Replies[1].Result != protocol.RESULT_EXPRIED || !granted {
				w.violate("C03", pre(r)+"extra_reply", "request %s got %d replies: results %v", r, len(r.Replies), replyResults(r))
			}
		}
		if first.Result == protocol.RESULT_EXPRIED {
			w.violate("C03", pre(r)+"expired_first", "request %s: first reply is an EXPRIED notice", r)
		}
	}
	for _, tc := range cr.texts {
		if len(tc.extra) > 0 {
			w.violate("C03", "text_extra_reply", "text connection %d received %d replies beyond one per command line (first: %s)", tc.id, len(tc.extra), tc.extra[0])
		}
		w.probe("text_clients")
	}
	for _, r := range cr.h.order {
		for _, rep := range r.Replies {
			if rep.Text && rep.TextRaw != "" {
				w.violate("C03", "text_bad_reply", "request %s on a text connection was answered with %s instead of a lock result", r, rep.TextRaw)
			}
		}
	}
	for _, rep := range cr.h.stray {
		if rep.Recycled {
			w.violate("C03", "reply_from_recycled_command", "client %d received the reply to one of its lock requests under the foreign RequestId %x (result %d): the hold it had just been granted was ended by another client before the SUCCED reply was built, and the reply was built from the already recycled command object", rep.Conn, rep.StrayRid[1:7], rep.Result)
			continue
		}
		if o := cr.h.reqs[rep.StrayRid]; o != nil {
			w.violate("C03", "misrouted", "client %d received a reply (result %d) bearing the RequestId of %s, which it did not send", rep.Conn, rep.Result, o)
		} else {
			w.violate("C03", "stray_reply", "client %d received a reply (result %d) for a RequestId nobody sent", rep.Conn, rep.Result)
		}
	}
	// C17: counters and census are zero after the drain, values gone, nothing freed is reachable
	c := w.census(cr.node.sl)
	if c.Holds != 0 || c.Depth != 0 || c.Waiters != 0 {
		w.violate("C17", "leftover", "after drain: %d holds (depth %d), %d live waiters remain", c.Holds, c.Depth, c.Waiters)
	}
	if c.StLocked != 0 || c.StWait != 0 || c.StKeys != 0 {
		w.violate("C17", "state_nonzero", "after drain STATE reports LockedCount=%d WaitCount=%d KeyCount=%d (census: depth=%d waiters=%d keys=%d)",
			c.StLocked, c.StWait, c.StKeys, c.Depth, c.Waiters, c.Keys)
	}
	if c.Values != 0 {
		w.violate("C17", "value_leftover", "after drain %d keys still carry a value", c.Values)
	}
	for _, b := range w.scanFreed(cr.node.sl) {
		w.violate("C17", "freed_reachable", "%s", b)
	}
	var mems []*MemWaiterServerProtocol
	for _, c := range cr.clients {
		if mc, ok := c.(*memClient); ok && mc != nil {
			mems = append(mems, mc.p)
		}
	}
	for i, b := range w.scanCommandPools(cr.node, mems) {
		if i < 3 {
			w.violate("C17", "command_object_pooled_twice_or_in_use", "after drain: %s", b)
		}
	}
	w.probe("command_pools_scanned")
}

func replyResults(r *ReqRec) []string {
	var out []string
	for _, rep := range r.Replies {
		out = append(out, fmt.Sprintf("%d@%s", rep.Result, rep.T.Format("05.000")))
	}
	return out
}
