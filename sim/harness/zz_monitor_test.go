package server

// Simulation harness, part 6: the shard-serial monitor (L3). Every decision about a key is taken
// inside a critical section of its shard mutex; the monitor snapshots the watched keys at every
// release of such a mutex, so the sequence of snapshot differences is the true serial order of
// decisions whatever the schedule. Each difference must be explained by exactly one action the
// reference model permits (refinement step check); replies are cross-checked against the
// prediction made when their critical section was attributed.

import (
	"fmt"
	"sort"
	"time"

	"github.com/snower/slock/protocol"
	"github.com/snower/slock/simrt/ssched"
	"github.com/snower/slock/simrt/ssync"
)

var realDebug = false

type kid struct {
	db  uint8
	key [16]byte
}

type reqTrack struct {
	r          *ReqRec
	view       ReqView
	attributed bool  // a critical section was attributed to this request
	pred       *Pred // prediction for its terminal reply
	noChange   []Pred
	queuedAt   time.Time // enqueue instant (zero if never queued)
	final      bool      // terminal reply predicted (grant from queue, timeout, cancel)
	altPreds   []Pred    // other explanations of the same step (wake without hold vs timeout)
	atRisk     bool      // its hold ended before its SUCCED reply was delivered (finding F8 window)
	maybe      bool      // possibly explained by the flush of a recycled manager
	ambTimeout bool      // the timeout explanation was ambiguous: its lower bound is checked at the reply
	expPred    bool      // an EXPRIED notice is expected under this RequestId
	gotExp     bool
	termSeen   bool
	csAt       int // global transition count right after this request's critical section
	invAt      int // global transition count at invoke
}

type deferredReply struct {
	rt  *reqTrack
	rep Reply
	at  int
}

type holdTrack struct {
	ref       time.Time // grant or last successful re-lock / update
	since     time.Time // first grant
	shortened bool      // the last renewal moved the deadline earlier (C06 then allows 10 s of slack)
	everMs    bool      // some terms of this hold were in milliseconds (it sat in the millisecond wheel)
	renewed   bool
	// keptRef/keptE/keptFlag: the terms the server keeps when a re-lock or update carries the
	// unlimited-expiry flag with Expried 0xffff (lock.go UpdateLockedLock leaves the deadline alone)
	kept      bool
	keptRef   time.Time
	keptE     uint16
	keptFlag  uint16
}

type keyTrack struct {
	id      kid
	mk      MKey
	present bool
	glock   *PriorityMutex
	holds   map[*Lock]*holdTrack // by hold identity (several holds may share a LockId)
	hptr    []*Lock              // identities of mk.Holders, same order
	susp    string               // quiescence suspicion signature
	suspAt  time.Time
	changes int
	dupSeen bool
	mgr     *LockManager
	wakeDue bool // a hold ended or lost depth since the head waiter was last found inadmissible
	wakeByDeparture bool // ... or (only) the former head of the queue left without a grant
	endByExpiry     bool // the last hold that ended on this key ended by expiry
}

func (m *Monitor) String() string { return "monitor" }

type monitorState struct {
	atRiskList  []*reqTrack // requests in the window of finding F8, in the order they entered it
	cr          *coreRun
	w           *World
	cfg         ModelCfg
	concurrent  bool
	keys        map[kid]*keyTrack
	order       []kid
	reqs        map[[16]byte]*reqTrack
	pending     map[kid][]*reqTrack
	transitions int
	sigs        map[string]bool
	lastIdle    time.Time
	shards      []*ssync.Mutex
	pms         map[*PriorityMutex]*LockDB
	stallSlack  time.Duration
	lastIdx     map[int]int
	deferred    []deferredReply
	maxWaiters  int
	byKey       map[kid][]*ReqRec
	bigStates   int
	maxHolders  int
	sawLongExp  bool
	sawLongWait bool
	flushing    bool // booking the final state of a recycled manager: the task that made it is unknown
}

func newMonitor(cr *coreRun) *monitorState {
	ms := &monitorState{cr: cr, w: cr.w, keys: map[kid]*keyTrack{}, reqs: map[[16]byte]*reqTrack{}, pending: map[kid][]*reqTrack{},
		sigs: map[string]bool{}, pms: map[*PriorityMutex]*LockDB{}, concurrent: !cr.body.Serial, lastIdx: map[int]int{}, byKey: map[kid][]*ReqRec{}}
	ms.cfg.SeqPipeline = true
	return ms
}

// propFor maps an unexplained difference to the property whose rule it breaks.
func (ms *monitorState) violate(prop, class, format string, a ...any) {
	ms.w.violate(prop, class, format, a...)
}

func (ms *monitorState) attach() {
	cr := ms.cr
	for _, dbi := range cr.body.Dbs {
		db := cr.node.sl.dbs[uint8(dbi)]
		if db == nil {
			continue
		}
		for k := 0; k < cr.body.NKeys; k++ {
			id := kid{uint8(dbi), keyBytes(k)}
			ms.keys[id] = &keyTrack{id: id, holds: map[*Lock]*holdTrack{}}
			ms.order = append(ms.order, id)
		}
		// keys outside the common set that single requests use (keys nobody else touches)
		for ci := range cr.body.Clients {
			for oi := range cr.body.Clients[ci].Ops {
				o := &cr.body.Clients[ci].Ops[oi]
				id := kid{uint8(dbi), keyBytes(o.Key)}
				if o.Key >= cr.body.NKeys && ms.keys[id] == nil {
					ms.keys[id] = &keyTrack{id: id, holds: map[*Lock]*holdTrack{}}
					ms.order = append(ms.order, id)
				}
			}
		}
		for i := range db.managerGlocks {
			pm := db.managerGlocks[i]
			ms.pms[pm] = db
			ms.shards = append(ms.shards, &pm.mutex)
			dbc, pmc := db, pm
			pm.mutex.OnRelease = func() { ms.onRelease(dbc, pmc) }
		}
	}
	cr.h.atRisk = func(conn int) *ReqRec {
		var found *ReqRec
		keep := ms.atRiskList[:0]
		for _, rt := range ms.atRiskList {
			if rt.termSeen || rt.r.excused {
				continue
			}
			keep = append(keep, rt)
			if found == nil && rt.r.Client == conn {
				found = rt.r
			}
		}
		ms.atRiskList = keep
		return found
	}
	cr.h.onInv = append(cr.h.onInv, ms.onInvoke)
	cr.h.onReply = append(cr.h.onReply, ms.onReply)
	ms.w.S.OnIdle = append(ms.w.S.OnIdle, func() bool { ms.onIdle(); return false })
}

func (ms *monitorState) kidOf(r *ReqRec) kid { return kid{r.Op.Db, keyBytes(r.Op.Key)} }

func (ms *monitorState) onInvoke(r *ReqRec) {
	rt := &reqTrack{r: r, view: reqView(r), invAt: ms.transitions}
	ms.reqs[r.Id] = rt
	id := ms.kidOf(r)
	kt := ms.keys[id]
	if kt == nil {
		return
	}
	ms.pending[id] = append(ms.pending[id], rt)
	ms.byKey[id] = append(ms.byKey[id], r)
	ms.addNoChange(kt, rt)
	if t := ssched.CurrentTask(); t != nil && r.Client >= 0 {
		if _, isMem := ms.cr.clients[r.Client].(*memClient); isMem {
			t.Cur = rt
		}
	}
}

// addNoChange records the replies the request may get from the key's current state without
// changing it (refusals, immediate timeouts, shows ...).
func (ms *monitorState) addNoChange(kt *keyTrack, rt *reqTrack) {
	if rt.attributed {
		return
	}
	for _, o := range ms.next(kt, rt) {
		if !o.Pred.NoReply && o.After.equalLocks(&kt.mk) && ms.valTolerant(&kt.mk, &o.After) {
			p := o.Pred
			p.Before = kt.mk.Val
			rt.noChange = append(rt.noChange, p)
			if len(rt.noChange) > 64 {
				rt.noChange = rt.noChange[len(rt.noChange)-64:]
			}
		}
	}
}

func (ms *monitorState) sameDeadlineFn(kt *keyTrack, rt *reqTrack) func(h *MHold) (bool, bool) {
	return func(h *MHold) (bool, bool) {
		ht := kt.trackOf(h.Lid, h.Req)
		if ht == nil {
			return false, false
		}
		op := rt.view.Op
		if op.EFlag&efUnlim != 0 {
			if op.Expried == 0xffff {
				return true, true
			}
			return true, h.EFlag&efUnlim != 0
		}
		if op.EFlag&efMs != 0 {
			return true, true
		}
		if h.EFlag&efUnlim != 0 {
			return true, false
		}
		now := ms.w.now()
		oldDl := ht.ref.Add(expiryDur(h.Expried, h.EFlag))
		newDl := now.Add(expiryDur(op.Expried, op.EFlag))
		d := newDl.Sub(oldDl)
		if d < 0 {
			d = -d
		}
		unit := time.Second
		if op.EFlag&efMinute != 0 {
			unit = time.Minute
		}
		return true, d <= unit+1500*time.Millisecond
	}
}

// trackOf finds the timing record of the first hold with this LockId and terms-setting request.
func (kt *keyTrack) trackOf(lid, req [16]byte) *holdTrack {
	for i, h := range kt.mk.Holders {
		if h.Lid == lid && h.Req == req && i < len(kt.hptr) {
			return kt.holds[kt.hptr[i]]
		}
	}
	return nil
}

// msSlack: millisecond deadlines are computed from a clock reading truncated to whole
// milliseconds; one millisecond of tolerance on their lower bound.
func msSlack(ms bool) time.Duration {
	if ms {
		return time.Millisecond
	}
	return 0
}

func expiryDur(e uint16, flag uint16) time.Duration {
	switch {
	case flag&efMs != 0:
		return time.Duration(e) * time.Millisecond
	case flag&efMinute != 0:
		return time.Duration(e) * time.Minute
	}
	return time.Duration(e) * time.Second
}

func timeoutDur(op *OpSpec) time.Duration {
	switch {
	case op.TFlag&tfMs != 0:
		return time.Duration(op.Timeout) * time.Millisecond
	case op.TFlag&tfMinute != 0:
		return time.Duration(op.Timeout) * time.Minute
	}
	return time.Duration(op.Timeout) * time.Second
}

func (ms *monitorState) next(kt *keyTrack, rt *reqTrack) []Outcome {
	outs := ms.nextCfg(kt, rt, ms.cfg)
	if rt.view.Data != nil && hasPipeline(rt.view.Data) {
		alt := ms.cfg
		alt.SeqPipeline = false
		for _, o := range ms.nextCfg(kt, rt, alt) {
			o.NonSeq = true
			o.Note += " [pipeline applied non-sequentially]"
			outs = append(outs, o)
		}
	}
	return outs
}

func (ms *monitorState) nextCfg(kt *keyTrack, rt *reqTrack, cfg ModelCfg) []Outcome {
	if rt.view.Op.Cmd == protocol.COMMAND_LOCK {
		return nextLock(&kt.mk, rt.view, cfg, ms.sameDeadlineFn(kt, rt), ms.concurrent)
	}
	outs := nextUnlock(&kt.mk, rt.view, cfg, true)
	if !kt.present || (len(kt.mk.Holders) == 0 && len(kt.mk.Waiters) == 0) {
		outs = append(outs, nextUnlock(&kt.mk, rt.view, cfg, false)...)
	}
	return outs
}

// valTolerant: values must agree, except that a key with no holder and no waiter may lose its
// value at any moment (its manager is recycled), C15 speaks only about held keys.
func (ms *monitorState) valTolerant(got, want *MKey) bool {
	if got.Val.Equal(want.Val) {
		return true
	}
	if len(got.Holders) == 0 && len(got.Waiters) == 0 && !got.Val.Exists {
		return true
	}
	return false
}

func (ms *monitorState) dataOf(req [16]byte) ([]byte, *OpSpec) {
	rt := ms.reqs[req]
	if rt == nil {
		return nil, nil
	}
	return rt.view.Data, &rt.view.Op
}

func (ms *monitorState) onRelease(db *LockDB, pm *PriorityMutex) {
	ms.cr.bindTextRids()
	for _, id := range ms.order {
		if id.db != db.dbId {
			continue
		}
		kt := ms.keys[id]
		if all := managersFor(db, id.key); len(all) > 1 {
			holds := 0
			for _, x := range all {
				holds += len(holdersOf(x))
			}
			if !kt.dupSeen {
				kt.dupSeen = true
				ms.violate("C01", "duplicate_key_manager", "key %d db %d is served by %d separate lock managers at once (%d holds in total): requests for one key are being decided independently of each other", keyIndex(id.key), id.db, len(all), holds)
			}
		}
		m := findManager(db, id.key)
		if kt.mgr != nil && m != kt.mgr {
			// the key's manager was replaced: the old one was recycled, which only happens once
			// nothing is held or queued on it. Its last critical section may not have been released
			// yet (the recycling itself contains scheduling points), so its final, empty state is
			// booked now, before anything the new manager decides.
			old := kt.mgr
			if old.refCount != 0xffffffff && old.lockKey == id.key && !kt.dupSeen {
				kt.dupSeen = true
				ms.violate("C01", "duplicate_key_manager", "key %d db %d: a second lock manager serves the key while the first is still live (%d holds on it)", keyIndex(id.key), id.db, len(holdersOf(old)))
			}
			empty := MKey{}
			if !(empty.equalLocks(&kt.mk) && !kt.mk.Val.Exists) {
				ms.flushing = true
				ms.explain(kt, &empty, nil)
				ms.flushing = false
				kt.mk, kt.hptr = empty, nil
				kt.changes++
				ms.transitions++
				for _, rt := range ms.pending[id] {
					ms.addNoChange(kt, rt)
				}
			}
			kt.mgr, kt.glock, kt.present = nil, nil, false
		}
		if pm != nil {
			if m != nil && m.glock != pm {
				continue
			}
			if m == nil && (kt.glock != pm || !kt.present) {
				continue
			}
		}
		snap := snapManager(m)
		after := mkeyOfSnap(&snap)
		if m != nil {
			// anchor invariant of C01/C17: the key's depth counter equals the sum of holder depths
			if snap.Locked != after.locked() {
				ms.violate("C17", "locked_mismatch", "key %d db %d: manager depth counter %d but holders sum to %d (%s)", keyIndex(id.key), id.db, snap.Locked, after.locked(), after.sig())
			}
		}
		if after.equalLocks(&kt.mk) && after.Val.Equal(kt.mk.Val) {
			if kt.mk.Waited != after.Waited {
				kt.mk.Waited = after.Waited
				for _, rt := range ms.pending[id] {
					ms.addNoChange(kt, rt)
				}
			}
			kt.present, kt.mgr = m != nil, m
			kt.glock = nil
			if m != nil {
				kt.glock = m.glock
			}
			continue
		}
		ptrs := make([]*Lock, len(snap.Holders))
		for i := range snap.Holders {
			ptrs[i] = snap.Holders[i].ptr
		}
		ms.explain(kt, &after, ptrs)
		kt.mk = after
		kt.hptr = ptrs
		kt.present, kt.mgr = m != nil, m
		kt.glock = nil
		if m != nil {
			kt.glock = m.glock
		}
		kt.changes++
		ms.transitions++
		if len(after.Holders)+len(after.Waiters) <= 24 {
			ms.sigs[after.sig()] = true
		} else {
			ms.bigStates++
		}
		if n := len(after.Waiters); n > ms.maxWaiters {
			ms.maxWaiters = n
		}
		if n := len(after.Holders); n > ms.maxHolders {
			ms.maxHolders = n
		}
		for i := range snap.Holders {
			if snap.Holders[i].ptr != nil && snap.Holders[i].ptr.longWaitIndex > 0 {
				ms.sawLongExp = true
			}
		}
		for i := range snap.Waiters {
			if snap.Waiters[i].ptr != nil && snap.Waiters[i].ptr.longWaitIndex > 0 {
				ms.sawLongWait = true
			}
		}
		for _, rt := range ms.pending[id] {
			ms.addNoChange(kt, rt)
		}
	}
}

type action struct {
	name string
	rt   *reqTrack
	outs []Outcome
}

func (ms *monitorState) explain(kt *keyTrack, after *MKey, ptrs []*Lock) {
	w := ms.w
	now := w.now()
	before := &kt.mk
	var acts []action
	// 1. the request the running task is executing, or any pending wire request on this key
	var cur *reqTrack
	if t := ssched.CurrentTask(); t != nil && !ms.flushing {
		if rt, ok := t.Cur.(*reqTrack); ok && rt != nil && !rt.attributed && ms.kidOf(rt.r) == kt.id {
			cur = rt
		}
	}
	if cur != nil {
		acts = append(acts, action{"request", cur, ms.next(kt, cur)})
	} else {
		for _, rt := range ms.pending[kt.id] {
			if rt.attributed || rt.termSeen {
				continue
			}
			if ms.flushing {
				acts = append(acts, action{"request", rt, ms.next(kt, rt)})
				continue
			}
			switch c := ms.cr.clients[rt.r.Client].(type) {
			case *memClient:
				// an in-memory client's request is only ever executed by its own task
				if t := ssched.CurrentTask(); t == nil || t.Cur != rt {
					continue
				}
			case *binClient:
				// a wire request is executed by the server task that reads this connection, and a
				// connection's requests are processed in the order they were sent
				if t := ssched.CurrentTask(); t == nil || t.Cur != any(c.conn.Peer) {
					continue
				}
				if last, ok := ms.lastIdx[rt.r.Client]; ok && rt.r.Idx < last {
					continue
				}
			case *textClient:
				if t := ssched.CurrentTask(); t == nil || t.Cur != any(c.conn.Peer) {
					continue
				}
			}
			acts = append(acts, action{"request", rt, ms.next(kt, rt)})
		}
	}
	// 2. wake-up of the head waiter
	wk := nextWake(before, ms.dataOf, ms.cfg)
	if len(before.Waiters) > 0 {
		if frame, _ := ms.dataOf(before.Waiters[0].Req); frame != nil && hasPipeline(frame) {
			alt := ms.cfg
			alt.SeqPipeline = false
			for _, o := range nextWake(before, ms.dataOf, alt) {
				o.NonSeq = true
				o.Note += " [pipeline applied non-sequentially]"
				wk = append(wk, o)
			}
		}
	}
	acts = append(acts, action{"wake", nil, wk})
	// 3. expiry of a hold, 4. timeout of a waiter, 5. value reclaimed with the key
	// (only removals that can possibly match are materialised: the state copy is quadratic)
	if len(after.Holders) == len(before.Holders)-1 && len(after.Waiters) == len(before.Waiters) {
		i := 0
		for i < len(after.Holders) && before.Holders[i] == after.Holders[i] {
			i++
		}
		a := before.clone()
		h := before.Holders[i]
		a.Holders = append(a.Holders[:i:i], a.Holders[i+1:]...)
		res := uint8(protocol.RESULT_EXPRIED)
		if h.AckPend {
			res = protocol.RESULT_TIMEOUT
		}
		acts = append(acts, action{"expire", nil, []Outcome{{After: a, Pred: Pred{Result: res}, SecondReq: h.Req, Note: fmt.Sprintf("expire l%d", lidIndex(h.Lid))}}})
	}
	if len(after.Waiters) == len(before.Waiters)-1 && len(after.Holders) == len(before.Holders) {
		i := 0
		for i < len(after.Waiters) && before.Waiters[i] == after.Waiters[i] {
			i++
		}
		a := before.clone()
		wt := before.Waiters[i]
		a.Waiters = append(a.Waiters[:i:i], a.Waiters[i+1:]...)
		acts = append(acts, action{"timeout", nil, []Outcome{{After: a, Pred: Pred{Result: protocol.RESULT_TIMEOUT}, SecondReq: wt.Req, Note: "wait timeout"}}})
	}
	if len(before.Holders) == 0 && len(before.Waiters) == 0 {
		a := before.clone()
		a.Val = Val{}
		acts = append(acts, action{"reclaim", nil, []Outcome{{After: a, Note: "value reclaimed"}}})
	}
	type match struct {
		ac *action
		o  *Outcome
	}
	var matches []match
	for ai := range acts {
		ac := &acts[ai]
		for oi := range ac.outs {
			o := &ac.outs[oi]
			if w.keepLog && realDebug {
				w.logf("  cand %s/%s: %s locks=%v val=%v", ac.name, o.Note, o.After.sig(), o.After.equalLocks(after), ms.valTolerant(after, &o.After))
			}
			if o.After.equalLocks(after) && ms.valTolerant(after, &o.After) {
				matches = append(matches, match{ac, o})
			}
		}
	}
	// distinct explanations (different actors) of the same step
	actorOf := func(m match) string {
		if m.ac.name == "request" {
			return "request:" + string(m.ac.rt.r.Id[:])
		}
		if m.ac.name == "wake" || m.ac.name == "timeout" {
			return "queue:" + string(m.o.SecondReq[:]) // wake-without-hold vs timeout of one waiter: handled below
		}
		return m.ac.name + ":" + string(m.o.SecondReq[:])
	}
	actors := map[string]bool{}
	for _, m := range matches {
		actors[actorOf(m)] = true
	}
	if len(actors) > 1 || (len(matches) > 1 && ms.flushing) {
		// several different actors could have made this step (an expiry and a pending unlock of
		// the same hold; a cancellation and a grant-without-hold of the same waiter; the final
		// state of a recycled manager): every explanation is kept as a possibility for the
		// requests involved, none is asserted
		ms.w.probe("ambiguous_steps")
		for _, m := range matches {
			switch m.ac.name {
			case "request":
				if !m.o.Pred.NoReply {
					m.ac.rt.altPreds = append(m.ac.rt.altPreds, m.o.Pred)
				} else if m.ac.rt.queuedAt.IsZero() {
					m.ac.rt.queuedAt = now
				}
				m.ac.rt.maybe = true
				if m.o.SecondPred != nil {
					if other := ms.reqs[m.o.SecondReq]; other != nil {
						other.altPreds = append(other.altPreds, *m.o.SecondPred)
						other.maybe = true
					}
				}
			case "expire", "timeout", "wake":
				if rt := ms.reqs[m.o.SecondReq]; rt != nil {
					if m.ac.name == "expire" {
						rt.expPred = true
					} else {
						p := m.o.Pred
						if m.ac.name == "timeout" {
							p = Pred{Result: protocol.RESULT_TIMEOUT, Before: before.Val}
							rt.ambTimeout = true
						}
						rt.altPreds = append(rt.altPreds, p)
						rt.maybe = true
					}
				}
			}
		}
		ms.bookHolds(kt, after, ptrs, now, true)
		return
	}
	if len(matches) > 0 {
		m0 := matches[0]
		if m0.o.NonSeq {
			// is there an equally good sequential explanation by the same action?
			for _, m := range matches[1:] {
				if m.ac == m0.ac && !m.o.NonSeq {
					m0 = m
					break
				}
			}
		}
		if m0.o.NonSeq {
			ms.violate("C15", "pipeline_not_sequential", "key %d db %d: a PIPELINE value operation left %s; applying its operations one after the other to %s gives a different value (each operation was applied to the value before the pipeline, so only the last one took effect)",
				keyIndex(kt.id.key), kt.id.db, after.Val, before.Val)
		}
		// the same step may have a second explanation for the same queued request (a waiter with
		// expiry 0 that leaves the queue was either granted without a hold or timed out)
		amb := false
		for _, m := range matches[1:] {
			if (m.ac.name == "timeout" || m.ac.name == "wake") && (m0.ac.name == "timeout" || m0.ac.name == "wake") && m.o.SecondReq == m0.o.SecondReq {
				if rt := ms.reqs[m.o.SecondReq]; rt != nil {
					p := m.o.Pred
					if m.ac.name == "timeout" {
						p = Pred{Result: protocol.RESULT_TIMEOUT, Before: before.Val}
					}
					rt.altPreds = append(rt.altPreds, p)
					rt.ambTimeout = true
					amb = true
				}
			}
		}
		ms.apply(kt, m0.ac, m0.o, after, ptrs, now, amb)
		return
	}
	// the locks part may be explained while only the value differs
	for _, ac := range acts {
		for oi := range ac.outs {
			o := &ac.outs[oi]
			if !o.After.equalLocks(after) {
				continue
			}
			if len(before.Holders) == 0 && len(before.Waiters) == 0 && !before.Val.Exists && after.Val.Exists && !o.After.Val.Exists {
				// C17: a key that nobody held or waited for and that had no value shows one after a step that
				// writes none: the value of a finished key (this one's or another one's) has come back with the
				// key manager the server handed to this key
				ms.violate("C17", "value_of_finished_key_reappeared", "key %d db %d had no holder, no waiter and no value; after a step that writes no value (%s) it has the value %s: a finished key's value is still reachable", keyIndex(kt.id.key), kt.id.db, o.Note, after.Val)
			}
			if ac.name == "request" || ac.name == "wake" {
				rq := o.SecondReq
				if ac.rt != nil {
					rq = ac.rt.r.Id
				}
				frame, _ := ms.dataOf(rq)
				if frame != nil {
					if alt := applyValueOp(before.Val, frame, false); alt.Equal(after.Val) && !applyValueOp(before.Val, frame, true).Equal(after.Val) {
						ms.violate("C15", "pipeline_not_sequential", "key %d db %d: a PIPELINE value operation left %s where applying its operations one after the other to %s gives %s (each operation was applied to the value before the pipeline)",
							keyIndex(kt.id.key), kt.id.db, after.Val, before.Val, o.After.Val)
					} else {
						ms.violate("C15", "wrong_value", "key %d db %d: value operation of request %x left %s, the sequential interpreter computes %s from %s", keyIndex(kt.id.key), kt.id.db, rq[1:7], after.Val, o.After.Val, before.Val)
					}
				} else {
					ms.violate("C15", "value_changed_without_operation", "key %d db %d: value changed from %s to %s in a step (%s) that carries no value operation", keyIndex(kt.id.key), kt.id.db, before.Val, after.Val, o.Note)
				}
			} else {
				ms.violate("C15", "value_changed_without_operation", "key %d db %d: value changed from %s to %s in a step (%s) that carries no value operation", keyIndex(kt.id.key), kt.id.db, before.Val, after.Val, o.Note)
			}
			o.After.Val = after.Val
			ms.apply(kt, &ac, o, after, ptrs, now, false)
			return
		}
	}
	ms.unexplained(kt, before, after, ptrs, acts, cur)
}

// apply books an explained transition: timing references, predictions, timing lower bounds.
func (ms *monitorState) apply(kt *keyTrack, ac *action, o *Outcome, after *MKey, ptrs []*Lock, now time.Time, ambiguous bool) {
	w := ms.w
	if w.keepLog {
		w.logf("T key%d db%d %s/%s: %s => %s", keyIndex(kt.id.key), kt.id.db, ac.name, o.Note, kt.mk.sig(), after.sig())
	}
	switch ac.name {
	case "request":
		rt := ac.rt
		rt.attributed = true
		rt.csAt = ms.transitions + 1
		ms.lastIdx[rt.r.Client] = rt.r.Idx
		p := o.Pred
		if p.NoReply {
			rt.queuedAt = now
		} else {
			rt.pred = &p
		}
		if o.SecondPred != nil {
			if other := ms.reqs[o.SecondReq]; other != nil {
				sp := *o.SecondPred
				other.pred, other.final = &sp, true
			}
		}
		w.probe("cs_request")
	case "wake":
		if rt := ms.reqs[o.SecondReq]; rt != nil {
			p := o.Pred
			rt.pred, rt.final = &p, true
			rt.csAt = ms.transitions + 1
		}
		w.probe("cs_wake")
	case "expire":
		// lower bound of C06: never before E has passed since the grant / last renewal
		gone := map[*Lock]bool{}
		for _, p := range kt.hptr {
			gone[p] = true
		}
		for _, p := range ptrs {
			delete(gone, p)
		}
		for i, h := range kt.mk.Holders {
			if h.Req != o.SecondReq || i >= len(kt.hptr) || !gone[kt.hptr[i]] {
				continue
			}
			ht := kt.holds[kt.hptr[i]]
			if h.AckPend {
				break
			}
			if h.EFlag&efUnlim != 0 {
				class := "unlimited_expired"
				if ht != nil && ht.kept {
					// F73: the renewal with flag 0x4000 and Expried 0xffff left the old deadline in force
					class = "unlimited_65535_renewal_kept_old_deadline"
					if el, e := now.Sub(ht.keptRef), expiryDur(ht.keptE, ht.keptFlag); el+msSlack(ht.keptFlag&efMs != 0) < e {
						class = "expired_early"
					}
				} else if ht != nil && ht.everMs && ht.renewed {
					class = "expired_early_ms_wheel_renewal"
				}
				ms.violate("C06", class, "key %d: hold l%d with the unlimited-expiry flag was ended by time (millisecond terms at some point: %v, renewed: %v)", keyIndex(kt.id.key), lidIndex(h.Lid), ht != nil && ht.everMs, ht != nil && ht.renewed)
			} else if ht != nil {
				if el, e := now.Sub(ht.ref), expiryDur(h.Expried, h.EFlag); el+msSlack(h.EFlag&efMs != 0) < e {
					class := "expired_early"
					if ht.everMs && ht.renewed {
						class = "expired_early_ms_wheel_renewal"
						if h.EFlag&efMs != 0 {
							class = "expired_early_ms_to_ms_renewal"
						}
					}
					ms.violate("C06", class, "key %d: hold l%d (expiry %v) ended by the server %v after its grant/renewal (first granted %v ago, millisecond terms at some point: %v, renewed: %v)", keyIndex(kt.id.key), lidIndex(h.Lid), e, el, now.Sub(ht.since), ht.everMs, ht.renewed)
				}
			}
			if rt := ms.reqs[h.Req]; rt != nil {
				rt.expPred = true
			}
		}
		w.probe("cs_expire")
	case "timeout":
		if rt := ms.reqs[o.SecondReq]; rt != nil {
			if !rt.queuedAt.IsZero() && !ambiguous {
				if el, t := now.Sub(rt.queuedAt), timeoutDur(&rt.view.Op); el+msSlack(rt.view.Op.TFlag&tfMs != 0) < t {
					ms.violate("C05", "timeout_early", "request %s (timeout %v) was timed out %v after it was queued", rt.r, t, el)
				}
			}
			rt.pred, rt.final = &Pred{Result: protocol.RESULT_TIMEOUT, Before: kt.mk.Val}, true
		}
		w.probe("cs_timeout")
	case "reclaim":
	}
	if after.locked() < kt.mk.locked() {
		kt.endByExpiry = ac.name == "expire"
	}
	ms.bookHolds(kt, after, ptrs, now, false)
}

// bookHolds keeps the per-hold timing records, the wake-up obligation and the F8 window in step
// with an observed transition. lenient: the step was ambiguous, timing references of holds whose
// terms changed are reset without judging.
func (ms *monitorState) bookHolds(kt *keyTrack, after *MKey, ptrs []*Lock, now time.Time, lenient bool) {
	// F8 window: a hold that ends before the reply that announces it has been delivered
	{
		still := map[[16]byte]bool{}
		for _, h := range after.Holders {
			still[h.Req] = true
		}
		for _, h := range kt.mk.Holders {
			if !still[h.Req] {
				if rt := ms.reqs[h.Req]; rt != nil && !rt.termSeen {
					if !rt.atRisk {
						ms.atRiskList = append(ms.atRiskList, rt)
					}
					rt.atRisk = true
				}
			}
		}
	}
	// timing references of holds
	newHolds := map[*Lock]*holdTrack{}
	prevOf := map[*Lock]*MHold{}
	for i := range kt.mk.Holders {
		if i < len(kt.hptr) {
			prevOf[kt.hptr[i]] = &kt.mk.Holders[i]
		}
	}
	for i, h := range after.Holders {
		h := h
		if i >= len(ptrs) {
			break
		}
		p := ptrs[i]
		old := kt.holds[p]
		prev := prevOf[p]
		switch {
		case ptrs == nil:
		case old == nil || prev == nil:
			newHolds[p] = &holdTrack{ref: now, since: now, everMs: h.EFlag&efMs != 0}
			// C02: while a LockId holds a key, locking it again adds a level to that hold (at most Rcount
			// times) or is refused: it never becomes a second hold of its own
			for j := range kt.mk.Holders {
				if kt.mk.Holders[j].Lid == h.Lid {
					ms.violate("C02", "same_lockid_holds_twice", "key %d: l%d became a holder of its own while that LockId already holds the key (depth %d, Rcount of the new request %d): %s", keyIndex(kt.id.key), lidIndex(h.Lid), kt.mk.Holders[j].Depth, h.Rcount, kt.mk.sig())
					break
				}
			}
			// C01: admission of a new holder against the state before (independent of the model's
			// own bookkeeping: uses only the observed snapshots)
			ms.checkAdmission(kt, &kt.mk, &h)
		case prev.Req != h.Req:
			// re-lock or update: the period restarts
			nt := &holdTrack{ref: now, since: old.since, everMs: old.everMs || h.EFlag&efMs != 0, renewed: true, shortened: old.shortened}
			if h.EFlag&efUnlim == 0 && (prev.EFlag&efUnlim != 0 || now.Add(expiryDur(h.Expried, h.EFlag)).Before(old.ref.Add(expiryDur(prev.Expried, prev.EFlag)))) {
				nt.shortened = true
			}
			if h.EFlag&efUnlim != 0 && h.Expried == 0xffff {
				if old.kept {
					nt.kept, nt.keptRef, nt.keptE, nt.keptFlag = true, old.keptRef, old.keptE, old.keptFlag
				} else if prev.EFlag&efUnlim == 0 {
					nt.kept, nt.keptRef, nt.keptE, nt.keptFlag = true, old.ref, prev.Expried, prev.EFlag
				}
			}
			newHolds[p] = nt
		default:
			newHolds[p] = old
		}
	}
	kt.holds = newHolds
	// C04: a hold that ends or loses depth obliges the server to serve the queue
	if after.locked() < kt.mk.locked() {
		kt.wakeDue, kt.wakeByDeparture = true, false
	}
	// ... and so does a queued request that leaves the head of the queue without being granted (it
	// timed out or was cancelled): the one behind it is the head now and may be admissible where the
	// departed one was not ("at every quiescent moment no key has a live queued request at the head
	// of its queue that could be admitted")
	// (on a key that is held: the requests queued on a free key are the ones that wait for it to be
	// taken, and are not served because another of them gives up)
	if len(kt.mk.Waiters) > 0 && len(after.Waiters) > 0 && after.locked() > 0 && after.locked() == kt.mk.locked() && after.Waiters[0].Req != kt.mk.Waiters[0].Req {
		gone := true
		for _, wt := range after.Waiters {
			if wt.Req == kt.mk.Waiters[0].Req {
				gone = false
			}
		}
		for _, h := range after.Holders {
			if h.Req == kt.mk.Waiters[0].Req {
				gone = false
			}
		}
		if gone {
			kt.wakeDue, kt.wakeByDeparture = true, true
		}
	}
	if len(after.Waiters) == 0 || !after.admissible(after.Waiters[0].Count) {
		kt.wakeDue, kt.wakeByDeparture = false, false
	}
}

// checkAdmission is the C01 rule stated on observed snapshots only.
func (ms *monitorState) checkAdmission(kt *keyTrack, before *MKey, h *MHold) {
	n := before.locked()
	if n == 0 {
		return
	}
	oldest := before.Holders[0]
	if h.Count == 0 || n > uint32(h.Count) || n > uint32(oldest.Count) {
		class, sig := "inadmissible_grant", before.sig()
		if h.Count == 0xffff && oldest.Count == 0xffff && n >= 0xffff {
			// F75: doLock treats Count 0xffff on both sides as "no bound" once 65535 holds exist
			class = "count_ffff_not_a_bound"
		}
		if len(sig) > 600 {
			sig = sig[:600] + " ..."
		}
		ms.violate("C01", class, "key %d: l%d (Count %d) became a holder while %d holds were outstanding (oldest holder Count %d): %s", keyIndex(kt.id.key), lidIndex(h.Lid), h.Count, n, oldest.Count, sig)
	}
}

func (ms *monitorState) unexplained(kt *keyTrack, before, after *MKey, ptrs []*Lock, acts []action, cur *reqTrack) {
	// classify the difference
	prop, class := "C02", "unexplained_transition"
	bh, ah := map[[16]byte]MHold{}, map[[16]byte]MHold{}
	for _, h := range before.Holders {
		bh[h.Lid] = h
	}
	for _, h := range after.Holders {
		ah[h.Lid] = h
	}
	added, removed, depthChanged := 0, 0, 0
	for l, h := range ah {
		if o, ok := bh[l]; !ok {
			added++
			ms.checkAdmission(kt, before, &h)
		} else if o.Depth != h.Depth {
			depthChanged++
		}
	}
	for l := range bh {
		if _, ok := ah[l]; !ok {
			removed++
		}
	}
	wchg := len(before.Waiters) != len(after.Waiters)
	if !wchg {
		for i := range before.Waiters {
			if before.Waiters[i] != after.Waiters[i] {
				wchg = true
			}
		}
	}
	switch {
	case added > 0 && wchg:
		prop, class = "C04", "grant_out_of_queue_order"
	case added > 0:
		prop, class = "C01", "unexplained_grant"
	case removed > 0 || depthChanged > 0:
		prop, class = "C02", "unexplained_release"
	case wchg:
		prop, class = "C04", "unexplained_queue_change"
	case !before.Val.Equal(after.Val):
		prop, class = "C15", "unexplained_value"
	}
	who := "no pending request"
	if cur != nil {
		who = cur.r.String()
	} else if t := ssched.CurrentTask(); t != nil {
		who = "task " + t.Name
	}
	cand := ""
	for _, ac := range acts {
		for _, o := range ac.outs {
			if len(cand) < 600 {
				cand += fmt.Sprintf(" [%s:%s -> %s]", ac.name, o.Note, o.After.sig())
			}
		}
	}
	ms.violate(prop, class, "key %d db %d: critical section by %s changed %s => %s, which no permitted action explains; permitted:%s", keyIndex(kt.id.key), kt.id.db, who, before.sig(), after.sig(), cand)
	// keep the timing table in step
	newHolds := map[*Lock]*holdTrack{}
	now := ms.w.now()
	for i, h := range after.Holders {
		if o := kt.holds[ptrs[i]]; o != nil {
			newHolds[ptrs[i]] = o
		} else {
			newHolds[ptrs[i]] = &holdTrack{ref: now, since: now, everMs: h.EFlag&efMs != 0}
		}
	}
	kt.holds = newHolds
}

// onReply cross-checks a delivered reply with the prediction made in the true serial order.
func (ms *monitorState) onReply(r *ReqRec, rep *Reply) {
	rt := ms.reqs[r.Id]
	if rt == nil {
		return
	}
	kt := ms.keys[ms.kidOf(r)]
	if rep.Result == protocol.RESULT_EXPRIED && rt.termSeen {
		if !rt.expPred {
			ms.violate("C06", "expired_notice_without_expiry", "request %s received EXPRIED but no expiry of its hold was observed", r)
		}
		if rt.gotExp {
			ms.violate("C03", "second_expired_notice", "request %s received a second EXPRIED notice", r)
		}
		rt.gotExp = true
		return
	}
	if rt.termSeen && rep.maybeOf != nil {
		// two replies under this id while another request of the connection was in the F8 window: this
		// one is the foreign one if the first has been accepted; otherwise the first verdict decides
		for _, d := range ms.deferred {
			if d.rt == rt {
				return
			}
		}
		if ms.cr.h.attributeRecycled(r, rep) {
			return
		}
	}
	if rt.termSeen {
		if rep.Result == protocol.RESULT_TIMEOUT && r.Op.Cmd == protocol.COMMAND_LOCK && r.Op.TFlag&tfAck == 0 {
			// C05: once a queued request has been granted or cancelled its timeout can no longer fire
			ms.violate("C05", "timeout_after_terminal_reply", "request %s was answered TIMEOUT after it had already been answered (granted or cancelled first): its wait timeout was still armed", r)
		}
		return // C03's final check reports extra replies
	}
	rt.termSeen = true
	if rep.Result == protocol.RESULT_SUCCED && r.Op.Cmd == protocol.COMMAND_LOCK && r.Op.Expried > 0 {
		ms.l1Exclusion(r, rep)
	}
	id := ms.kidOf(r)
	defer func() {
		// drop from pending, unless the verdict was deferred (its permitted replies keep growing)
		if !rt.termSeen {
			return // the reply turned out to be another request's (recycledReply): still pending
		}
		for _, d := range ms.deferred {
			if d.rt == rt {
				return
			}
		}
		pl := ms.pending[id]
		for i, x := range pl {
			if x == rt {
				ms.pending[id] = append(pl[:i:i], pl[i+1:]...)
				break
			}
		}
	}()
	if kt == nil {
		return
	}
	// LCount and LRCount are read by the server after the critical section: they are asserted
	// only when no critical section anywhere changed anything in between (C17)
	quietSince := rt.csAt
	if rt.pred == nil || rt.csAt == 0 {
		quietSince = rt.invAt
	}
	countsStable := ms.transitions == quietSince && !ms.anyShardHeld()
	check := func(p *Pred) string {
		if p.Result != rep.Result {
			return fmt.Sprintf("result %d, expected %d", rep.Result, p.Result)
		}
		if p.Result == protocol.RESULT_TIMEOUT && rt.final {
			return "" // counts in a timeout notice are read after the critical section
		}
		if !countsStable {
			return ""
		}
		if p.LRCount != rep.LRCount && !(rt.final && p.Result != protocol.RESULT_SUCCED) {
			return fmt.Sprintf("LRCount %d, expected %d", rep.LRCount, p.LRCount)
		}
		if p.LCount != rep.LCount && !rt.final {
			return fmt.Sprintf("LCount %d, expected %d", rep.LCount, p.LCount)
		}
		return ""
	}
	if countsStable {
		ms.w.probe("reply_counts_asserted")
	}
	if rt.pred != nil {
		why := check(rt.pred)
		used := rt.pred
		if why != "" {
			for i := range rt.altPreds {
				if check(&rt.altPreds[i]) == "" {
					why, used = "", &rt.altPreds[i]
					break
				}
			}
		}
		if why != "" {
			if ms.recycledReply(rt, rep) {
				return
			}
			ms.violate(replyProp(rt, rep, why), "reply_mismatch", "request %s answered with %s", r, why)
			return
		}
		if rt.ambTimeout && rep.Result == protocol.RESULT_TIMEOUT && !rt.queuedAt.IsZero() {
			if el, t := rep.T.Sub(rt.queuedAt), timeoutDur(&rt.view.Op); el+msSlack(rt.view.Op.TFlag&tfMs != 0) < t {
				ms.violate("C05", "timeout_early", "request %s (timeout %v) was timed out %v after it was queued", rt.r, t, el)
			}
		}
		rt.pred = used
		// C15: the reply carries the value from immediately before the operation
		if rep.Result == protocol.RESULT_SUCCED || (rt.pred.Result == protocol.RESULT_LOCKED_ERROR && r.Op.Flag&protocol.LOCK_FLAG_UPDATE_WHEN_LOCKED != 0) {
			got := valOfFrame(rep.Data)
			if rep.Text {
				if !textValMatches(rt.pred.Before, rep.TextVal) && !(len(kt.mk.Holders) == 0 && !rt.pred.Before.Exists) {
					ms.violate("C15", "reply_value", "request %s (text connection): reply carries value %v, the value immediately before the operation was %s", r, rep.TextVal, rt.pred.Before)
				}
			} else if !got.Equal(rt.pred.Before) && !(len(kt.mk.Holders) == 0 && !rt.pred.Before.Exists) {
				ms.violate("C15", "reply_value", "request %s: reply carries value %s, the value immediately before the operation was %s", r, got, rt.pred.Before)
			}
		}
		return
	}
	if rt.maybe {
		for i := range rt.altPreds {
			if rt.altPreds[i].Result == rep.Result {
				return
			}
		}
	}
	if rt.attributed && !rt.queuedAt.IsZero() {
		if rep.Result == protocol.RESULT_TIMEOUT {
			// C05: a queued request is answered TIMEOUT by its timeout and by nothing else; here no
			// timeout was seen to remove it from the queue (its record still stands there, or it
			// holds the key)
			if el, t := ms.w.now().Sub(rt.queuedAt), timeoutDur(&r.Op); el+msSlack(r.Op.TFlag&tfMs != 0) < t {
				ms.violate("C05", "timeout_early", "request %s (timeout %v) was answered TIMEOUT %v after it was queued", r, t, el)
			} else {
				ms.violate("C05", "timeout_answer_without_timeout", "request %s was answered TIMEOUT %v after it was queued although it was not removed from the queue by its timeout at that moment", r, el)
			}
		}
		ms.violate("C04", "queued_request_answered_without_cause", "request %s was queued and then answered (result %d) without a grant, timeout or cancellation being observed", r, rep.Result)
		return
	}
	// no critical section changed anything for this request: its reply must be one of the
	// refusals the model allows for a state the key was in while the request was pending
	var why string
	for i := range rt.noChange {
		why = check(&rt.noChange[i])
		if why == "" {
			return
		}
	}
	// the monitor may learn of a change only when the critical section that made it is released;
	// the verdict is deferred to the next moment the whole system is at rest
	ms.deferred = append(ms.deferred, deferredReply{rt, *rep, ms.transitions})
}

// recycledReply: a reply that is no permitted answer to its request, delivered while an earlier request
// of the same connection was in the window of finding F8, is that request's reply (see
// History.attributeRecycled); the request it names is pending again.
func (ms *monitorState) recycledReply(rt *reqTrack, rep *Reply) bool {
	if rep.maybeOf == nil || !ms.cr.h.attributeRecycled(rt.r, rep) {
		return false
	}
	rt.termSeen = false
	id := ms.kidOf(rt.r)
	found := false
	for _, x := range ms.pending[id] {
		if x == rt {
			found = true
		}
	}
	if !found {
		ms.pending[id] = append(ms.pending[id], rt)
	}
	if len(rt.r.Replies) > 0 {
		// the request's own reply has arrived meanwhile
		rt.r.Replies[0].maybeOf = nil
		ms.onReply(rt.r, &rt.r.Replies[0])
	}
	return true
}

// acceptedFirst: the first reply under an id has been accepted as the request's own; a second one that
// arrived in the F8 window of another request of the connection is that request's.
func (ms *monitorState) acceptedFirst(rt *reqTrack) {
	if len(rt.r.Replies) > 1 && rt.r.Replies[1].maybeOf != nil {
		rep := rt.r.Replies[1]
		ms.cr.h.attributeRecycled(rt.r, &rep)
	}
}

func (ms *monitorState) settleDeferred() {
	if len(ms.deferred) == 0 {
		return
	}
	ds := ms.deferred
	ms.deferred = nil
	for _, d := range ds {
		rt, rep := d.rt, d.rep
		kt := ms.keys[ms.kidOf(rt.r)]
		if rt.pred != nil || rt.attributed {
			// its critical section was booked after the reply was seen
			if rt.pred != nil && rt.pred.Result != rep.Result {
				if !ms.recycledReply(rt, &rep) {
					ms.violate(replyProp(rt, &rep, "result"), "reply_mismatch", "request %s answered with result %d, expected %d", rt.r, rep.Result, rt.pred.Result)
				}
			} else {
				ms.acceptedFirst(rt)
			}
			continue
		}
		ok := false
		for i := range rt.noChange {
			if rt.noChange[i].Result == rep.Result {
				ok = true
			}
		}
		if ok {
			ms.acceptedFirst(rt)
		} else if !ms.recycledReply(rt, &rep) {
			why := fmt.Sprintf("result %d, which no state the key was in while the request was pending permits without a change", rep.Result)
			ms.violate(replyProp(rt, &rep, why), "reply_mismatch_nochange", "request %s answered with %s (state now %s)", rt.r, why, kt.mk.sig())
		}
	}
}

// l1Exclusion is the black-box form of C01: when a lock request with Count c is granted, the
// holds that are definitely outstanding on its key (granted before this request was even sent,
// and which nothing sent so far could have ended) number at most c.
func (ms *monitorState) l1Exclusion(g *ReqRec, rep *Reply) {
	if rep.LRCount != 1 {
		return // a re-entrant re-lock is not a new holder
	}
	now := rep.T
	id := ms.kidOf(g)
	def := 0
	var who []string
	hist := ms.byKey[id]
	if len(hist) > 250 {
		return // the white-box form of the rule covers long single-key histories; this form is cubic
	}
	for _, h := range hist {
		if h == g || h.Op.Cmd != protocol.COMMAND_LOCK || ms.kidOf(h) != id || len(h.Replies) == 0 {
			continue
		}
		hr := h.Replies[0]
		if hr.Result != protocol.RESULT_SUCCED || h.Op.Expried == 0 || hr.Ev >= g.InvEv || h.Op.Lid == g.Op.Lid || hr.LRCount != 1 {
			continue
		}
		if len(h.Replies) > 1 {
			continue // expired
		}
		if h.Op.EFlag&efUnlim == 0 && !now.Before(h.InvT.Add(expiryDur(h.Op.Expried, h.Op.EFlag))) {
			continue // may have expired
		}
		ended := false
		for _, u := range hist {
			if ms.kidOf(u) != id || u == h {
				continue
			}
			if u.Op.Cmd == protocol.COMMAND_UNLOCK {
				if u.Op.Lid != h.Op.Lid && u.Op.Flag&protocol.UNLOCK_FLAG_UNLOCK_FIRST_LOCK_WHEN_UNLOCKED == 0 {
					continue
				}
				if len(u.Replies) > 0 && u.Replies[0].Ev < h.InvEv {
					continue // answered before the hold could exist
				}
				ended = true
			} else if len(u.Replies) > 0 && u.Replies[0].Ev < h.InvEv {
				continue // decided before the hold could exist
			} else if u.Op.Lid == h.Op.Lid {
				ended = true // a request with the same LockId decided after the grant may have changed its terms
			} else if u.Op.Flag&protocol.LOCK_FLAG_SHOW_WHEN_LOCKED != 0 && u.Op.Flag&protocol.LOCK_FLAG_UPDATE_WHEN_LOCKED != 0 {
				ended = true // show+update rewrites the oldest hold's terms
			}
			if ended {
				break
			}
		}
		if ended {
			continue
		}
		def++
		who = append(who, h.String())
	}
	if def > 0 {
		ms.w.probe("l1_grant_with_definite_holds")
	}
	if uint32(def) > uint32(g.Op.Count) {
		ms.violate("C01", "l1_count_exceeded", "request %s (Count %d) was granted while %d other holds were definitely outstanding on its key: %v", g, g.Op.Count, def, who)
	}
}

func replyProp(rt *reqTrack, rep *Reply, why string) string {
	op := rt.view.Op
	switch {
	case len(why) > 6 && why[:6] == "LCount":
		return "C17"
	case op.Cmd == protocol.COMMAND_UNLOCK:
		return "C02"
	case rep.Result == protocol.RESULT_TIMEOUT || (rt.pred != nil && rt.pred.Result == protocol.RESULT_TIMEOUT):
		return "C05"
	case rep.Result == protocol.RESULT_LOCKED_ERROR || (rt.pred != nil && rt.pred.Result == protocol.RESULT_LOCKED_ERROR):
		return "C02"
	case len(why) > 7 && why[:7] == "LRCount":
		return "C02"
	}
	return "C01"
}

func (ms *monitorState) anyShardHeld() bool {
	for _, m := range ms.shards {
		if m.Held() {
			return true
		}
	}
	return false
}

// onIdle: the whole system is at rest at one simulated instant.
func (ms *monitorState) onIdle() {
	w := ms.w
	now := w.now()
	if ms.anyShardHeld() {
		return
	}
	if now.Equal(ms.lastIdle) {
		return
	}
	ms.lastIdle = now
	// no shard mutex is held: every key can be brought up to date before verdicts are settled
	for _, db := range ms.cr.node.sl.dbs {
		if db != nil {
			ms.onRelease(db, nil)
		}
	}
	ms.settleDeferred()
	// C17: STATE counters equal the census at every quiescent moment
	c := w.census(ms.cr.node.sl)
	if uint32(c.Depth) != c.StLocked || uint32(c.Waiters) != c.StWait || uint32(c.Keys) != c.StKeys {
		ms.violate("C17", "state_census_mismatch", "at rest: STATE reports LockedCount=%d WaitCount=%d KeyCount=%d but the census finds depth=%d live waiters=%d keys=%d",
			c.StLocked, c.StWait, c.StKeys, c.Depth, c.Waiters, c.Keys)
	}
	w.probe("quiescent_checks")
	for _, id := range ms.order {
		kt := ms.keys[id]
		// C04: no admissible live waiter at the head of the queue at a quiescent moment
		if kt.wakeDue && len(kt.mk.Waiters) > 0 && kt.mk.admissible(kt.mk.Waiters[0].Count) {
			sig := kt.mk.sig()
			if kt.susp == sig && now.Sub(kt.suspAt) >= 2*time.Millisecond {
				class := "lost_wakeup"
				if kt.wakeByDeparture {
					class = "lost_wakeup_after_head_waiter_left"
				}
				ms.violate("C04", class, "key %d db %d at rest since %v: head queued request %x is admissible but not granted: %s", keyIndex(id.key), id.db, now.Sub(kt.suspAt), kt.mk.Waiters[0].Req[1:7], sig)
				if class == "lost_wakeup" && kt.endByExpiry {
					// C06: when a hold expires its capacity is freed and the queue served exactly as after an unlock
					ms.violate("C06", "queue_not_served_after_expiry", "key %d db %d: the last hold that ended on the key ended by expiry, and %v later the head queued request %x is admissible but not granted: %s", keyIndex(id.key), id.db, now.Sub(kt.suspAt), kt.mk.Waiters[0].Req[1:7], sig)
				}
				kt.suspAt = now.Add(24 * time.Hour)
			} else if kt.susp != sig {
				kt.susp, kt.suspAt = sig, now
			}
		} else {
			kt.susp = ""
		}
		// upper bounds: C06 (holds end by E+2s), C05 (queued requests end by T+2s)
		for i, h := range kt.mk.Holders {
			if i >= len(kt.hptr) {
				continue
			}
			ht := kt.holds[kt.hptr[i]]
			if ht == nil || h.EFlag&efUnlim != 0 || h.AckPend {
				continue
			}
			slack := 2 * time.Second
			if ht.shortened {
				slack = 10 * time.Second
			}
			if late := now.Sub(ht.ref) - expiryDur(h.Expried, h.EFlag) - slack - ms.stallSlack; late > 50*time.Millisecond {
				ms.violate("C06", "expiry_late", "key %d: hold l%d (expiry %v) still outstanding %v after its grant/renewal", keyIndex(id.key), lidIndex(h.Lid), expiryDur(h.Expried, h.EFlag), now.Sub(ht.ref))
				ht.ref = now.Add(24 * time.Hour)
			}
		}
		for _, wt := range kt.mk.Waiters {
			rt := ms.reqs[wt.Req]
			if rt == nil || rt.queuedAt.IsZero() {
				continue
			}
			op := rt.view.Op
			if op.TFlag&tfMs != 0 && op.Timeout < 3000 {
				// sub-3s millisecond waits: only the lower bound and eventual firing are claimed
				if late := now.Sub(rt.queuedAt) - 10*time.Second; late > 0 {
					ms.violate("C05", "ms_timeout_never", "request %s still queued %v after it was queued", rt.r, now.Sub(rt.queuedAt))
					rt.queuedAt = now.Add(24 * time.Hour)
				}
				continue
			}
			if late := now.Sub(rt.queuedAt) - timeoutDur(&op) - 2*time.Second - ms.stallSlack; late > 50*time.Millisecond {
				ms.violate("C05", "timeout_late", "request %s (timeout %v) still queued %v after it was queued", rt.r, timeoutDur(&op), now.Sub(rt.queuedAt))
				rt.queuedAt = now.Add(24 * time.Hour)
			}
		}
	}
}

func (ms *monitorState) finish() {
	w := ms.w
	ms.settleDeferred()
	w.res.Probes["transitions"] = ms.transitions
	if ms.maxWaiters > 8 {
		w.probe("queue_gt8")
	}
	if ms.maxWaiters > 128 {
		w.probe("queue_gt128")
	}
	if ms.maxHolders > 128 {
		w.probe("holders_gt128")
	}
	if ms.sawLongExp {
		w.probe("hold_in_long_table")
	}
	if ms.sawLongWait {
		w.probe("waiter_in_long_table")
	}
	w.res.Probes["distinct_key_states"] = len(ms.sigs) + ms.bigStates
	keys := make([]string, 0, len(ms.sigs))
	for k := range ms.sigs {
		keys = append(keys, k)
	}
	sort.Strings(keys)
	h := uint64(1469598103934665603)
	for _, k := range keys {
		for i := 0; i < len(k); i++ {
			h ^= uint64(k[i])
			h *= 1099511628211
		}
	}
	w.res.StateSig = fmt.Sprintf("%016x", h)
	// every queued request must have ended, every granted hold that expired must have been notified
	for _, rt := range ms.reqs {
		_ = rt
	}
}
