package server

// C10: only the leader decides; other nodes refuse or forward.
//
// A leader and 1-2 followers (real servers) plus binary clients, each connected to one node
// (leader or follower) and running its script one request at a time with LockIds of its own.
// Oracles:
//   white box, on every non-leader node: at every mutex release the node's lock state (holders,
//     depths and waiters of every key) is compared with the previous one; a change must have been
//     made on the replay path (a persistence channel applying the leader's record) or by a
//     resynchronisation; a change made on a client connection's path or by the node's own
//     expiry/timeout sweepers (before the 300 s grace has passed) breaks the property;
//   black box: a LOCK answered SUCCED through any node is held on the leader at that moment, an
//     UNLOCK answered SUCCED is no longer; every request gets exactly one reply, which is the
//     outcome the leader's state permits (STATE_ERROR apart); at the end the holds the clients
//     believe they have are exactly the leader's.

import (
	"encoding/json"
	"fmt"
	"runtime"
	"sort"
	"strings"
	"time"

	"github.com/snower/slock/protocol"
	"github.com/snower/slock/simrt/snet"
	"github.com/snower/slock/simrt/ssched"
	"github.com/snower/slock/simrt/ssync"
)

type FCClient struct {
	Text    bool     `json:"text,omitempty"` // a text (RESP) connection: LOCK/UNLOCK command lines
	Target  int      `json:"target"` // 0 = leader, i>0 = follower i-1
	StartMs int      `json:"start_ms"`
	Ops     []OpSpec `json:"ops"`
}

type FCBody struct {
	NFollowers int        `json:"nfollowers"`
	NKeys      int        `json:"nkeys"`
	Clients    []FCClient `json:"clients"`
	// RestartFollowerMs > 0: follower 0 is killed then and started again 2 s later (a client
	// connected to it loses its connection)
	RestartFollowerMs int `json:"restart_follower_ms,omitempty"`
	LingerS           int `json:"linger_s"`
	// RepointMs > 0: at that time the last follower is told to follow an address nobody listens on
	// (the admin command's path, ReplicationManager.ChangeLeader): it sits in the syncing state with
	// the holds it has replicated, for RepointForS seconds, and is then pointed back at the leader
	RepointMs   int `json:"repoint_ms,omitempty"`
	RepointForS int `json:"repoint_for_s,omitempty"`
	// LingerState > 0: once the clients are done the last follower is put into that state (STATE_VOTE or
	// STATE_CONFIG, by SLock.updateState, which is what the arbiter does to a member at the start of its
	// candidacy and when it is taken out of the set) and stays in it while the run lingers: the replicated
	// holds whose deadlines pass meanwhile are not the node's to end in those states either
	LingerState uint8 `json:"linger_state,omitempty"`
}

func genFollowerClients(prop string, seed uint64, tier string) *Scenario {
	r := ssched.Sub(seed, "gen")
	pipelineOK = false
	body := &FCBody{NFollowers: 1 + r.Intn(2), NKeys: 1 + r.Intn(4), LingerS: 5 + r.Intn(40)}
	nc := 2 + r.Intn(4)
	for c := 0; c < nc; c++ {
		fc := FCClient{Target: r.Intn(body.NFollowers + 1), StartMs: 200 + r.Intn(600)}
		if c == 0 {
			fc.Target = 1 // at least one client on a follower
		}
		fc.Text = r.Intn(4) == 0
		no := 4 + r.Intn(14)
		for i := 0; i < no; i++ {
			o := OpSpec{Cmd: 1, Key: r.Intn(body.NKeys), Lid: c*8 + r.Intn(3), DelayMs: r.Intn(400), Wait: true}
			if r.Intn(100) < 35 {
				o.Cmd = 2
				o.Rcount = []uint8{0, 0, 1}[r.Intn(3)]
			} else {
				o.Count = []uint16{0, 0, 1, 2, 0xffff}[r.Intn(5)]
				o.Rcount = []uint8{0, 0, 1, 3}[r.Intn(4)]
				o.Timeout = []uint16{0, 0, 1, 2, 4}[r.Intn(5)]
				o.Expried = []uint16{3, 8, 60, 300, 600}[r.Intn(5)]
				if r.Intn(3) == 0 {
					o.EFlag |= efAof0
				}
				if r.Intn(12) == 0 {
					o.Expried = 0
				}
			}
			fc.Ops = append(fc.Ops, o)
		}
		body.Clients = append(body.Clients, fc)
	}
	if pr := ssched.Sub(seed, "probable"); pr.Intn(3) == 0 {
		// drawn from a generator of its own: a client on the leader takes and releases a key in quick
		// succession (persisted at once, so every hold reaches the followers), a client on a follower
		// asks for the same key with the concurrent-check flag and no timeout (the request a follower is
		// tempted to answer from its own copy), and other lock requests get that flag too
		k := pr.Intn(body.NKeys)
		p := FCClient{Target: 0, StartMs: 300 + pr.Intn(300)}
		q := FCClient{Target: 1 + pr.Intn(body.NFollowers), StartMs: 300 + pr.Intn(300), Text: pr.Intn(4) == 0}
		for i, n := 0, 6+pr.Intn(10); i < n; i++ {
			p.Ops = append(p.Ops, OpSpec{Cmd: 1, Key: k, Lid: 200, Timeout: 1, Expried: 60, EFlag: efAof0, DelayMs: pr.Intn(6), Wait: true},
				OpSpec{Cmd: 2, Key: k, Lid: 200, DelayMs: pr.Intn(6), Wait: true})
		}
		for i, n := 0, 8+pr.Intn(14); i < n; i++ {
			q.Ops = append(q.Ops, OpSpec{Cmd: 1, Key: k, Lid: 201, Flag: protocol.LOCK_FLAG_CONCURRENT_CHECK, Expried: 60, EFlag: efAof0, DelayMs: pr.Intn(5), Wait: true},
				OpSpec{Cmd: 2, Key: k, Lid: 201, Wait: true})
		}
		body.Clients = append(body.Clients, p, q)
		for c := range body.Clients[:len(body.Clients)-2] {
			for i := range body.Clients[c].Ops {
				if o := &body.Clients[c].Ops[i]; o.Cmd == 1 && pr.Intn(5) == 0 {
					o.Flag |= protocol.LOCK_FLAG_CONCURRENT_CHECK
					o.Timeout = 0
				}
			}
		}
	}
	if r.Intn(5) == 0 {
		body.RestartFollowerMs = 1500 + r.Intn(3000)
	}
	if r.Intn(3) == 0 && !(body.NFollowers == 1 && body.RestartFollowerMs > 0) {
		body.RepointMs = 1500 + r.Intn(6000)
		body.RepointForS = 5 + r.Intn(40)
	}
	if ls := ssched.Sub(seed, "lingerstate"); ls.Intn(3) == 0 {
		// a draw stream of its own
		body.LingerState = []uint8{STATE_VOTE, STATE_CONFIG}[ls.Intn(2)]
		if body.LingerS < 15 {
			body.LingerS = 15 + ls.Intn(25)
		}
	}
	raw, _ := json.Marshal(body)
	k := genKnobs(r)
	k.DBLockAofTime = uint(r.Intn(2))
	sc := &Scenario{Knobs: k, Sched: genSched(r, seed), Body: raw, MaxSimS: 6000}
	if r.Intn(3) == 0 {
		sc.Net = NetCfg{LatencyUs: r.Intn(2000), JitterUs: r.Intn(2000), FragPermil: []int{0, 300}[r.Intn(2)]}
	}
	return sc
}

// shardLockSig: holders (LockId, depth) and number of waiters of every key whose manager is
// guarded by the shard mutex pm.
func shardLockSig(sl *SLock, pm *PriorityMutex) string {
	var parts []string
	for dbi, db := range sl.dbs {
		if db == nil {
			continue
		}
		for _, m := range allManagers(db) {
			if m.refCount == 0xffffffff || m.glock != pm {
				continue
			}
			hs := holdersOf(m)
			ws := waitersOf(m)
			if len(hs) == 0 && len(ws) == 0 {
				continue
			}
			var hl []string
			for _, l := range hs {
				if l.command != nil {
					hl = append(hl, fmt.Sprintf("%x:%d", l.command.LockId[:3], l.locked))
				}
			}
			sort.Strings(hl)
			parts = append(parts, fmt.Sprintf("%d/%x{%s|w%d}", dbi, m.lockKey[:2], strings.Join(hl, ","), len(ws)))
		}
	}
	sort.Strings(parts)
	return strings.Join(parts, " ")
}

// shardOf finds the shard mutex of a node that embeds m.
func shardOf(sl *SLock, m *ssync.Mutex) *PriorityMutex {
	for _, db := range sl.dbs {
		if db == nil {
			continue
		}
		for _, pm := range db.managerGlocks {
			if &pm.mutex == m {
				return pm
			}
		}
	}
	return nil
}

// stackClass names the path the running task is on: replay, resync, client or sweeper.
func stackClass() (string, string) {
	pcs := make([]uintptr, 48)
	n := runtime.Callers(3, pcs)
	frames := runtime.CallersFrames(pcs[:n])
	var names []string
	for {
		f, more := frames.Next()
		if strings.Contains(f.Function, "slock/server.") && !strings.Contains(f.Function, ".zz") {
			names = append(names, f.Function[strings.LastIndex(f.Function, "server.")+7:])
		}
		if !more {
			break
		}
	}
	all := strings.Join(names, " < ")
	has := func(s string) bool { return strings.Contains(all, s) }
	switch {
	case has("(*AofChannel).Handle"):
		return "replay", all
	case has("(*ReplicationClient)") || has("(*ReplicationManager).FlushDB") || has("(*LockDB).FlushDB") || has("(*SLock).updateState"):
		return "resync", all
	case has("checkExpried") || has("checkMillisecondExpried") || has("checkTimeExpried") || has("flushExpried") || has("doExpried"):
		return "expiry_sweeper", all
	case has("checkTimeOut") || has("checkMillisecondTimeOut") || has("checkTimeTimeOut") || has("flushTimeOut") || has("doTimeOut"):
		return "timeout_sweeper", all
	case has("(*Server).handle") || has("ServerProtocol).Process") || has("ServerProtocol).ProcessParse"):
		return "client", all
	case has("checkWaitRemoveLockManager") || has("checkTimeWaitRemoveLockManager"):
		return "reclaim", all
	}
	return "other", all
}

type fcRun struct {
	w         *World
	body      *FCBody
	h         *History
	leader    *Node
	fnodes    []*Node
	lastSig   map[*PriorityMutex]string
	done      bool
	believed  map[string]*ReqRec // "key/lid" -> granting request, per client belief
	freeSince map[int]uint64     // key -> event number since which it has been free on the leader (0: held)
	clientsUp int
}

func runFollowerClients(w *World) {
	body := &FCBody{}
	if err := json.Unmarshal(w.sc.Body, body); err != nil {
		w.harnessErr("bad body: %v", err)
		return
	}
	fr := &fcRun{w: w, body: body, h: newHistory(w), lastSig: map[*PriorityMutex]string{}, believed: map[string]*ReqRec{}, freeSince: map[int]uint64{}}
	for k := 0; k < body.NKeys; k++ {
		fr.freeSince[k] = 1
	}
	rr := &restartRun{w: w, h: fr.h}
	leaderAddr := "127.0.0.1:5001"
	nodeOf := map[int]*Node{}
	ssync.OnAnyRelease = func(m *ssync.Mutex) {
		node := ssched.CurrentNode()
		n := nodeOf[node]
		if n != nil && n.sl != nil && node == 1 && n == fr.leader {
			// the leader: since when each key has been free without interruption (0 = it is held)
			if db := n.sl.dbs[0]; db != nil {
				busy := map[[16]byte]bool{}
				for _, lm := range allManagers(db) {
					if lm.refCount != 0xffffffff && lm.locked > 0 {
						busy[lm.lockKey] = true
					}
				}
				for k := 0; k < body.NKeys; k++ {
					switch {
					case busy[keyBytes(k)]:
						fr.freeSince[k] = 0
					case fr.freeSince[k] == 0:
						fr.freeSince[k] = fr.h.ev + 1
					}
				}
			}
			return
		}
		if n == nil || n.sl == nil || node < 100 {
			return
		}
		// the state guarded by a shard mutex can only be changed by the task holding it: a change
		// seen at its release was made by the releasing task
		pm := shardOf(n.sl, m)
		if pm == nil {
			return
		}
		sig := shardLockSig(n.sl, pm)
		old, seen := fr.lastSig[pm]
		fr.lastSig[pm] = sig
		if (!seen && sig == "") || old == sig {
			return
		}
		cls, stack := stackClass()
		w.probe("follower_state_changes_" + cls)
		switch cls {
		case "replay", "resync", "reclaim":
			return
		case "expiry_sweeper", "timeout_sweeper":
			// allowed only for holds more than 300 s past their deadline: the workload's longest
			// run is shorter than that, so any change by the node's own clock is too early
			w.violate("C10", "non_leader_"+cls+"_changed_state", "non-leader node n%d changed its lock state on its own clock: %s => %s [%s]", node, old, sig, stack)
		case "client":
			w.violate("C10", "non_leader_decided", "non-leader node n%d changed its lock state while serving a client connection: %s => %s [%s]", node, old, sig, stack)
		default:
			w.violate("C10", "non_leader_state_changed_off_stream", "non-leader node n%d changed its lock state outside the replay path: %s => %s [%s]", node, old, sig, stack)
		}
	}
	defer func() { ssync.OnAnyRelease = nil }()

	leaderHolds := func(op *OpSpec) (bool, uint8) {
		var held bool
		var depth uint8
		db := fr.leader.sl.dbs[op.Db]
		if db == nil {
			return false, 0
		}
		kb, lb := keyBytes(op.Key), lidBytes(op.Lid)
		for _, m := range allManagers(db) {
			if m.refCount == 0xffffffff || m.lockKey != kb {
				continue
			}
			for _, l := range holdersOf(m) {
				if l.command != nil && l.command.LockId == lb {
					held, depth = true, l.locked
				}
			}
		}
		return held, depth
	}
	fr.h.onReply = append(fr.h.onReply, func(r *ReqRec, rep *Reply) {
		if len(r.Replies) != 1 {
			return
		}
		via := "the leader"
		if t := body.Clients[r.Client].Target; t > 0 {
			via = fmt.Sprintf("follower %d", t-1)
			w.probe("replies_via_follower")
			if rep.Result == protocol.RESULT_STATE_ERROR {
				w.probe("state_error_via_follower")
			}
		}
		if rep.Text && rep.TextRaw != "" {
			w.violate("C10", "text_reply_not_a_lock_result", "request %s sent over a text connection to %s was answered %s, neither a lock result nor a refusal", r, via, rep.TextRaw)
		}
		bk := fmt.Sprintf("%d/%d", r.Op.Key, r.Op.Lid)
		if r.Op.Cmd == protocol.COMMAND_LOCK && r.Op.Flag&protocol.LOCK_FLAG_CONCURRENT_CHECK != 0 {
			w.probe("concurrent_check_requests")
		}
		if r.Op.Cmd == protocol.COMMAND_LOCK && rep.Result == protocol.RESULT_TIMEOUT && r.Op.TFlag&0x0200 == 0 && r.Op.Db == 0 {
			// only the leader decides: a TIMEOUT means the key was in somebody's hands on the leader at some
			// moment between the request and its answer
			if fs := fr.freeSince[r.Op.Key]; fs != 0 && fs <= r.InvEv {
				class := "timeout_although_key_free_on_leader"
				if via != "the leader" && r.Op.Flag&protocol.LOCK_FLAG_CONCURRENT_CHECK != 0 && r.Op.Timeout == 0 {
					class = "follower_answered_concurrent_check_from_its_copy" // LockDB.CheckProbableLock, finding F94
				}
				w.violate("C10", class, "request %s was answered TIMEOUT through %s, but on the leader key %d was free from before the request was sent until the answer arrived: the answer was not the leader's", r, via, r.Op.Key)
			}
			w.probe("timeouts_checked_on_leader")
		}
		switch {
		case r.Op.Cmd == protocol.COMMAND_LOCK && rep.Result == protocol.RESULT_SUCCED && r.Op.Expried > 0:
			held, _ := leaderHolds(&r.Op)
			w.probe("grants_checked_on_leader")
			if via != "the leader" {
				w.probe("grants_via_follower")
			}
			// the hold may already have expired only if its term is short
			if !held && r.Op.Expried >= 60 {
				w.violate("C10", "granted_but_not_held_on_leader", "request %s was answered SUCCED through %s, but the leader does not hold LockId %d on key %d at that moment", r, via, r.Op.Lid, r.Op.Key)
			}
			fr.believed[bk] = r
		case r.Op.Cmd == protocol.COMMAND_UNLOCK && rep.Result == protocol.RESULT_SUCCED:
			held, depth := leaderHolds(&r.Op)
			if held && rep.LRCount == 0 {
				w.violate("C10", "released_but_held_on_leader", "request %s was answered SUCCED with no level left through %s, but the leader still holds LockId %d on key %d (depth %d)", r, via, r.Op.Lid, r.Op.Key, depth)
			}
			if rep.LRCount == 0 {
				delete(fr.believed, bk)
			}
		}
	})

	ssched.SpawnOn(0, "fc-driver", func() {
		defer func() { fr.done = true }()
		fr.leader = w.boot(1, w.mkcfg(1, "", ""))
		nodeOf[1] = fr.leader
		if !rr.waitReady(fr.leader, "leader start") {
			return
		}
		fr.fnodes = make([]*Node, body.NFollowers)
		for fi := 0; fi < body.NFollowers; fi++ {
			id := 100 + fi*10
			fr.fnodes[fi] = w.boot(id, w.mkcfg(id, leaderAddr, ""))
			nodeOf[id] = fr.fnodes[fi]
		}
		for fi, fn := range fr.fnodes {
			if !rr.waitReady(fn, fmt.Sprintf("follower %d start", fi)) {
				return
			}
		}
		for i := 0; i < 600; i++ {
			ok := true
			for _, fn := range fr.fnodes {
				if fn.sl.state != STATE_FOLLOWER {
					ok = false
				}
			}
			if ok {
				break
			}
			sleep(50 * time.Millisecond)
		}
		t0 := w.now()
		cdone := 0
		for ci, fc := range body.Clients {
			ci, fc := ci, fc
			ssched.SpawnOn(0, fmt.Sprintf("fcclient%d", ci), func() {
				defer func() { cdone++ }()
				sleep(time.Duration(fc.StartMs) * time.Millisecond)
				addr := leaderAddr
				if fc.Target > 0 {
					addr = fr.fnodes[fc.Target-1].addr
				}
				var c Client
				var conn *snet.SimConn
				var rerr func() error
				if fc.Text {
					tc, err := newTextClient(w, fr.h, addr, ci)
					if err != nil {
						w.logf("client %d dial %s: %v", ci, addr, err)
						return
					}
					c, conn, rerr = tc, tc.conn, func() error { return tc.readErr }
					if fc.Target > 0 {
						w.probe("text_clients_via_follower")
					}
				} else {
					bc, err := newBinClient(w, fr.h, addr, ci)
					if err != nil {
						w.logf("client %d dial %s: %v", ci, addr, err)
						return
					}
					c, conn, rerr = bc, bc.conn, func() error { return bc.readErr }
				}
				for i, op := range fc.Ops {
					if op.DelayMs > 0 {
						sleep(time.Duration(op.DelayMs) * time.Millisecond)
					}
					if fc.Text {
						textable(&op)
					}
					r := fr.h.invoke(ci, i, op)
					if err := c.Send(r); err != nil {
						r.lost = true
						return
					}
					if !waitReply(r, 60*time.Second) {
						if conn.Closed() || rerr() != nil {
							r.lost = true
							return
						}
						w.violate("C10", "no_reply", "request %s sent to %s got no reply within 60 simulated seconds", r, addr)
						return
					}
				}
			})
		}
		if body.RestartFollowerMs > 0 {
			d := t0.Add(time.Duration(body.RestartFollowerMs) * time.Millisecond).Sub(w.now())
			if d > 0 {
				sleep(d)
			}
			w.kill(fr.fnodes[0].id)
			w.fault("follower_kill")
			sleep(2 * time.Second)
			id := 101
			cfg := w.mkcfg(id, leaderAddr, "")
			cfg.DataDir = fr.fnodes[0].dir
			cfg.Port = fr.fnodes[0].cfg.Port
			fr.fnodes[0] = w.boot(id, cfg)
			nodeOf[id] = fr.fnodes[0]
			w.fault("follower_restart")
		}
		if body.RepointMs > 0 {
			fn := fr.fnodes[len(fr.fnodes)-1]
			if d := t0.Add(time.Duration(body.RepointMs) * time.Millisecond).Sub(w.now()); d > 0 {
				sleep(d)
			}
			holds := 0
			ssched.NoPreempt(func() {
				for _, db := range fn.sl.dbs {
					if db != nil {
						for _, m := range allManagers(db) {
							holds += len(holdersOf(m))
						}
					}
				}
			})
			if holds > 0 {
				w.probe("repoints_with_replicated_holds")
			}
			repointed := false
			ssched.SpawnOn(fn.id, "repoint", func() {
				if err := fn.sl.replicationManager.ChangeLeader("127.0.0.1:5999"); err != nil {
					w.logf("REPOINT n%d: %v", fn.id, err)
					return
				}
				repointed = true
				w.logf("REPOINT n%d to an unreachable leader: state %d", fn.id, fn.sl.state)
			})
			w.fault("follower_repointed")
			sleep(time.Duration(body.RepointForS) * time.Second)
			if repointed {
				if fn.sl.state != STATE_FOLLOWER {
					w.probe("repoint_left_follower_state")
				}
				back := false
				ssched.SpawnOn(fn.id, "repoint-back", func() {
					_ = fn.sl.replicationManager.ChangeLeader(leaderAddr)
					back = true
				})
				for i := 0; i < 400 && !back; i++ {
					sleep(50 * time.Millisecond)
				}
			}
		}
		for cdone < len(body.Clients) {
			sleep(50 * time.Millisecond)
		}
		if body.LingerState > 0 {
			if fn := fr.fnodes[len(fr.fnodes)-1]; fn != nil && fn.sl != nil && fn.ready {
				st := body.LingerState
				ssched.SpawnOn(fn.id, "linger-state", func() { fn.sl.updateState(st) })
				w.probe(fmt.Sprintf("followers_lingering_in_state_%d", st))
			}
		}
		// the followers' own clocks must not end the replicated holds while we linger
		sleep(time.Duration(body.LingerS) * time.Second)
		// final agreement: what the clients believe they hold is held on the leader (short terms apart)
		ssched.NoPreempt(func() {
			var ks []string
			for k := range fr.believed {
				ks = append(ks, k)
			}
			sort.Strings(ks)
			for _, k := range ks {
				r := fr.believed[k]
				if r.Op.EFlag&efUnlim == 0 && w.now().Sub(r.InvT) > expiryDur(r.Op.Expried, r.Op.EFlag)-3*time.Second {
					continue // may have expired
				}
				w.probe("final_beliefs_checked")
				if held, _ := leaderHolds(&r.Op); !held {
					w.violate("C10", "believed_hold_missing_on_leader", "request %s was granted and never released, its term has not passed, but the leader does not hold it", r)
				}
			}
		})
	})
	end := w.S.Loop(func() bool {
		if len(w.S.Panics) > 0 {
			p := w.S.Panics[0]
			w.violate(w.sc.Prop, "server_crash@"+panicSite(p.Stack), "a server goroutine panicked: %s [task %s]", p.Value, p.Task)
			return true
		}
		return fr.done && w.S.ReadyLen() == 0 || len(w.res.Violations) > 0
	}, time.Duration(w.sc.MaxSimS)*time.Second)
	w.res.LoopEnd = end
	if end != "done" && w.res.HarnessErr == "" && len(w.res.Violations) == 0 {
		w.harnessErr("run did not finish: loop ended with %q", end)
	}
	w.res.Nontrivial = w.res.Probes["grants_via_follower"] > 0 && w.res.Probes["follower_state_changes_replay"] > 0
	w.res.Faults["conn_resets"] = snet.N.Stats.Resets
}

func init() {
	kinds["followerclients"] = &kindFn{gen: genFollowerClients, run: runFollowerClients}
	propKinds["C10"] = append(propKinds["C10"], struct {
		Kind   string
		Weight int
	}{"followerclients", 10})
}
