package server

// C08: crash at any byte of the log recovers a clean record prefix.
//
// A workload runs against a real leader whose files live on the journalled simulated disk. The
// journal records every mutating file-system call in the order the process issued them, so the
// directory "as it was after t bytes of call J" can be rebuilt for any J and t: these are the
// crash images (they include the instants between the record write and the value write of one
// flush, and every residue of a torn record). For each image:
//   - the reference set is built with the server itself on cleaner input: the same image with the
//     newest append file cut back to a record boundary (k whole records, for several k) and the
//     value file replaced by its fullest known version;
//   - the image and its references are all started at the same simulated instant, as separate
//     nodes, and their canonical snapshots are compared: the torn image must recover one of them;
//   - some recovered instances then take new holds on fresh keys (persist-immediately), are killed
//     and started again: every one of those holds must be back.

import (
	"encoding/json"
	"fmt"
	"path/filepath"
	"sort"
	"strconv"
	"strings"
	"time"

	realos "os"

	"github.com/snower/slock/protocol"
	"github.com/snower/slock/simrt/sos"
	"github.com/snower/slock/simrt/ssched"
)

type CrashCut struct {
	// position among node 1's journalled writes to append.aof.* files (permille), 1000 = the last
	PosPermil int `json:"pos_permil"`
	// FromEnd, if > 0, counts writes back from the last one instead
	FromEnd int `json:"from_end,omitempty"`
	// bytes of that write that reached the file: Tear % (len+1)
	Tear int  `json:"tear"`
	Post bool `json:"post,omitempty"`
}

type CrashBody struct {
	Clients  []ClientSpec `json:"clients"`
	NKeys    int          `json:"nkeys"`
	NLids    int          `json:"nlids"`
	Dbs      []int        `json:"dbs"`
	SettleMs int          `json:"settle_ms"`
	Cuts     []CrashCut   `json:"cuts"`
	Post     []OpSpec     `json:"post"`
}

func genCrash(prop string, seed uint64, tier string) *Scenario {
	r := ssched.Sub(seed, "gen")
	pipelineOK = false
	rb := &RestartBody{NKeys: 2 + r.Intn(6), NLids: 2 + r.Intn(4), Dbs: []int{0}}
	if r.Intn(3) == 0 {
		rb.Dbs = []int{0, 2}
	}
	uniq := 0
	body := &CrashBody{NKeys: rb.NKeys, NLids: rb.NLids, Dbs: rb.Dbs, SettleMs: 500 + r.Intn(2500)}
	body.Clients = genRestartPhaseClients(r, rb, 0, &uniq)
	for ci := range body.Clients {
		for oi := range body.Clients[ci].Ops {
			o := &body.Clients[ci].Ops[oi]
			// mostly persisted at once, so that the log is long and carries values
			if o.Cmd == 1 && r.Intn(3) != 0 {
				o.EFlag = (o.EFlag &^ 0x1300) | efAof0
			}
			if o.Cmd == 1 && o.EFlag&efMs == 0 && o.Expried < 30 && o.EFlag&efUnlim == 0 {
				o.Expried = uint16(60 + r.Intn(900)) // the images are compared at one instant; keep holds alive
			}
		}
	}
	nc := 3 + r.Intn(4)
	if tier == "thorough" {
		nc = 6 + r.Intn(8)
	}
	for i := 0; i < nc; i++ {
		c := CrashCut{PosPermil: r.Intn(1001), Tear: r.Intn(4096)}
		switch r.Intn(4) {
		case 0:
			c.FromEnd = 1 + r.Intn(3)
		case 1:
			c.Tear = 1 + r.Intn(63) // inside the first record of the write
		}
		c.Post = i < 2
		body.Cuts = append(body.Cuts, c)
	}
	np := 2 + r.Intn(5)
	for i := 0; i < np; i++ {
		o := OpSpec{Cmd: 1, Key: 100 + i, Lid: 50 + r.Intn(3), Db: uint8(body.Dbs[r.Intn(len(body.Dbs))]), DelayMs: r.Intn(300), Wait: true,
			Expried: uint16(300 + r.Intn(600)), EFlag: efAof0, Count: []uint16{0, 2, 0xffff}[r.Intn(3)], Rcount: []uint8{0, 3}[r.Intn(2)]}
		if r.Intn(3) == 0 {
			o.Data = genDataSpec(r, &uniq, 1)
		}
		body.Post = append(body.Post, o)
	}
	raw, _ := json.Marshal(body)
	k := genKnobs(r)
	k.AofFileBufferSize = []uint{64, 128, 256, 1024, 4096}[r.Intn(5)]
	k.AofFileRewriteSize = []uint{2048, 4096, 1 << 20, 1 << 20}[r.Intn(4)]
	k.DBLockAofTime = uint(r.Intn(2))
	return &Scenario{Knobs: k, Sched: genSched(r, seed), Body: raw, MaxSimS: 6000}
}

// ---------------------------------------------------------------------------------------------

type crashImg struct {
	cut      CrashCut
	idx      int
	j        int // journal index of the torn write
	tear     int
	dir      string
	newest   string // name of the newest append file in the image
	flen     int64
	nrec     int
	residue  int
	datShort bool
	kMissing int // first record (0-based) of the newest file whose value is not complete in the image, or nrec
	node     *Node
	snap     map[string]*CanonKey
	refs     []*crashRef
}

type crashRef struct {
	k    int
	dir  string
	node *Node
	snap map[string]*CanonKey
}

func newestAppend(dir string) (string, int) {
	ents, _ := realos.ReadDir(dir)
	best, bi := "", -1
	for _, e := range ents {
		n := e.Name()
		if strings.HasPrefix(n, "append.aof.") && !strings.HasSuffix(n, ".dat") {
			if i, err := strconv.Atoi(n[len("append.aof."):]); err == nil && i > bi {
				best, bi = n, i
			}
		}
	}
	return best, bi
}

// fullestVersion: the longest content the file at path ever had according to the journal.
func fullestVersion(path string) []byte {
	var cur, best []byte
	for i := range sos.D.J {
		e := &sos.D.J[i]
		if e.Fail {
			continue
		}
		switch {
		case e.Path == path && (e.Op == "create" || e.Op == "trunc"):
			if e.Op == "trunc" {
				cur = nil
			}
		case e.Path == path && e.Op == "truncate":
			if int64(len(cur)) > e.Size {
				cur = cur[:e.Size]
			}
		case e.Path == path && e.Op == "write":
			end := int(e.Off) + len(e.Data)
			if end > len(cur) {
				cur = append(cur, make([]byte, end-len(cur))...)
			}
			copy(cur[e.Off:], e.Data)
		case e.Path == path && e.Op == "remove":
			cur = nil
		case e.Op == "rename" && e.Path == path:
			cur = nil
		}
		if len(cur) > len(best) {
			best = append([]byte(nil), cur...)
		}
	}
	return best
}

// firstMissingValue: index of the first record in recs (whole 64-byte records) whose value blob is
// not completely contained in dat; len(recs)/64 if none.
func firstMissingValue(recs, dat []byte) int {
	off := 0
	n := len(recs) / 64
	for i := 0; i < n; i++ {
		al := NewAofLock()
		copy(al.buf, recs[i*64:i*64+64])
		if al.Decode() != nil {
			continue
		}
		if al.AofFlag&AOF_FLAG_CONTAINS_DATA == 0 {
			continue
		}
		if off+4 > len(dat) {
			return i
		}
		l := int(uint32(dat[off]) | uint32(dat[off+1])<<8 | uint32(dat[off+2])<<16 | uint32(dat[off+3])<<24)
		if l < 0 || off+4+l > len(dat) {
			return i
		}
		off += 4 + l
	}
	return n
}

// heldOnly drops keys without holders: a value left on a key whose last hold was released lives
// until the key's manager is reclaimed, a moment that is not part of the recovered state.
func heldOnly(m map[string]*CanonKey) map[string]*CanonKey {
	out := map[string]*CanonKey{}
	for k, v := range m {
		if len(v.Holds) > 0 {
			out[k] = v
		}
	}
	return out
}

func sameRecovered(a, b map[string]*CanonKey) (bool, string) {
	a, b = heldOnly(a), heldOnly(b)
	ka, kb := sortedCanonKeys(a), sortedCanonKeys(b)
	if len(ka) != len(kb) {
		return false, fmt.Sprintf("%d keys vs %d keys", len(ka), len(kb))
	}
	for i, k := range ka {
		if kb[i] != k {
			return false, "different keys"
		}
		x, y := a[k], b[k]
		if len(x.Holds) != len(y.Holds) || x.HasV != y.HasV || x.Val != y.Val {
			return false, "key " + k + " differs"
		}
		for j := range x.Holds {
			p, q := x.Holds[j], y.Holds[j]
			d := p.Deadline - q.Deadline
			if d < 0 {
				d = -d
			}
			if p.Lid != q.Lid || p.Depth != q.Depth || p.Count != q.Count || p.Rcount != q.Rcount || d > deadlineUnit(p.EFlag)+1 {
				return false, "key " + k + " hold " + p.Lid[2:6] + " differs"
			}
		}
	}
	return true, ""
}

func runCrash(w *World) {
	body := &CrashBody{}
	if err := json.Unmarshal(w.sc.Body, body); err != nil {
		w.harnessErr("bad body: %v", err)
		return
	}
	rr := &restartRun{w: w, body: &RestartBody{NKeys: body.NKeys, NLids: body.NLids, Dbs: body.Dbs}, h: newHistory(w), dir: filepath.Join(w.root, "data")}
	_ = realos.MkdirAll(rr.dir, 0755)
	sos.D.OnOp = func(e *sos.JEntry) {
		w.logf("DISK n%d %s %s %s off=%d len=%d fail=%v [%s]%s", e.Node, e.Op, filepath.Base(e.Path), filepath.Base(e.Path2), e.Off, len(e.Data), e.Fail, e.Task, describeAofWrite(e))
	}
	ssched.SpawnOn(0, "crash-driver", func() {
		defer func() { rr.done = true }()
		cfg := w.mkcfg(1, "", "")
		cfg.DataDir = rr.dir
		node := w.boot(1, cfg)
		if !rr.waitReady(node, "first start") {
			return
		}
		rr.runClients(node, 0, body.Clients)
		rr.settle(node, body.SettleMs)
		if w.res.HarnessErr != "" {
			return
		}
		w.kill(1)
		w.fault("kill")
		jEnd := len(sos.D.J)
		// journalled writes of node 1 to append files
		var writes []int
		for i := 0; i < jEnd; i++ {
			e := &sos.D.J[i]
			if e.Node == 1 && !e.Fail && e.Op == "write" && strings.HasPrefix(filepath.Base(e.Path), "append.aof.") {
				writes = append(writes, i)
			}
		}
		if len(writes) == 0 {
			return // nothing was persisted: not a useful run
		}
		var imgs []*crashImg
		for ci, c := range body.Cuts {
			wi := c.PosPermil * (len(writes) - 1) / 1000
			if c.FromEnd > 0 {
				wi = len(writes) - c.FromEnd
				if wi < 0 {
					wi = 0
				}
			}
			j := writes[wi]
			e := &sos.D.J[j]
			tear := c.Tear % (len(e.Data) + 1)
			img := &crashImg{cut: c, idx: ci, j: j, tear: tear, dir: filepath.Join(w.root, fmt.Sprintf("img%d", ci))}
			_ = realos.MkdirAll(img.dir, 0755)
			if err := sos.D.Materialise(1, j+1, rr.dir, img.dir, nil, tear); err != nil {
				w.harnessErr("materialise image %d: %v", ci, err)
				return
			}
			img.newest, _ = newestAppend(img.dir)
			if img.newest == "" {
				continue
			}
			recs, _ := realos.ReadFile(filepath.Join(img.dir, img.newest))
			dat, _ := realos.ReadFile(filepath.Join(img.dir, img.newest+".dat"))
			img.flen = int64(len(recs))
			if len(recs) >= 12 {
				img.nrec = (len(recs) - 12) / 64
				img.residue = (len(recs) - 12) % 64
				img.kMissing = firstMissingValue(recs[12:12+img.nrec*64], dat)
			} else {
				img.residue = -len(recs) // inside the header
			}
			img.datShort = img.kMissing < img.nrec
			w.probe("crash_images")
			if img.residue != 0 {
				w.probe("torn_record_images")
				w.res.Probes[fmt.Sprintf("residue_%02d", (img.residue+64)%64)]++
			}
			if img.datShort {
				w.probe("value_file_behind_images")
			}
			w.fault("crash_image")
			// references: the same image with the newest append file cut to k whole records
			ks := map[int]bool{}
			for _, k := range []int{img.nrec, img.nrec - 1, img.nrec - 2, img.kMissing, img.kMissing - 1, img.kMissing + 1, 0} {
				if k >= 0 && k <= img.nrec {
					ks[k] = true
				}
			}
			if img.residue == 0 && !img.datShort {
				ks = map[int]bool{} // the image is a clean prefix itself
			}
			full := fullestVersion(filepath.Join(rr.dir, img.newest+".dat"))
			var kl []int
			for k := range ks {
				kl = append(kl, k)
			}
			sort.Ints(kl)
			for _, k := range kl {
				ref := &crashRef{k: k, dir: filepath.Join(w.root, fmt.Sprintf("img%d.ref%d", ci, k))}
				if err := copyDir(img.dir, ref.dir); err != nil {
					w.harnessErr("copy image: %v", err)
					return
				}
				if len(recs) >= 12 {
					_ = realos.Truncate(filepath.Join(ref.dir, img.newest), int64(12+64*k))
				}
				if len(full) > len(dat) {
					_ = realos.WriteFile(filepath.Join(ref.dir, img.newest+".dat"), full, 0644)
				}
				img.refs = append(img.refs, ref)
			}
			imgs = append(imgs, img)
		}
		// start everything at the same simulated instant
		id := 100
		for _, img := range imgs {
			c := w.mkcfg(id, "", "")
			c.DataDir = img.dir
			img.node = w.boot(id, c)
			id++
			for _, ref := range img.refs {
				c := w.mkcfg(id, "", "")
				c.DataDir = ref.dir
				ref.node = w.boot(id, c)
				id++
			}
		}
		for _, img := range imgs {
			what := fmt.Sprintf("crash image %d (journal entry %d, %d bytes of the write, newest file %s is %d bytes = header + %d records + %d bytes, value file behind: %v)", img.idx, img.j, img.tear, img.newest, img.flen, img.nrec, img.residue, img.datShort)
			if !rr.waitReady(img.node, what) {
				return
			}
			for _, ref := range img.refs {
				if !rr.waitReady(ref.node, fmt.Sprintf("clean prefix of %d records of crash image %d", ref.k, img.idx)) {
					return
				}
			}
		}
		sleep(300 * time.Millisecond)
		ssched.NoPreempt(func() {
			for _, img := range imgs {
				img.snap = canonSnapshot(img.node.sl)
				for _, ref := range img.refs {
					ref.snap = canonSnapshot(ref.node.sl)
				}
			}
		})
		for _, img := range imgs {
			for _, ref := range img.refs {
				w.kill(ref.node.id)
			}
			if len(img.refs) == 0 {
				continue
			}
			match := -1
			var why []string
			for _, ref := range img.refs {
				ok, d := sameRecovered(img.snap, ref.snap)
				if ok {
					match = ref.k
					break
				}
				why = append(why, fmt.Sprintf("k=%d: %s", ref.k, d))
			w.logf("REF image %d k=%d: %s", img.idx, ref.k, canonSig(ref.snap, true))
			}
			w.probe("images_compared")
			w.logf("IMAGE %d j=%d tear=%d %s len=%d nrec=%d residue=%d datshort=%v kmissing=%d match=%d recovered=%s", img.idx, img.j, img.tear, img.newest, img.flen, img.nrec, img.residue, img.datShort, img.kMissing, match, canonSig(img.snap, true))
			if match < 0 {
				cls := "torn_tail_not_a_prefix"
				if img.residue == 0 {
					cls = "missing_value_not_a_prefix"
				}
				w.violate("C08", cls, "crash after %d bytes of journalled write %d: %s is header + %d whole records + %d bytes (value file behind: %v); the state recovered from it (%s) is not what any whole-record prefix recovers (%s)",
					img.tear, img.j, img.newest, img.nrec, img.residue, img.datShort, canonSig(img.snap, false), strings.Join(why, "; "))
			}
		}
		if len(w.res.Violations) > 0 {
			return
		}
		// second half: what is persisted after the recovery is recovered by the next restart
		for _, img := range imgs {
			if !img.cut.Post || len(body.Post) == 0 {
				w.kill(img.node.id)
				continue
			}
			n := img.node
			cid := 900 + img.idx
			fin := false
			var granted []*ReqRec
			ssched.SpawnOn(n.id, fmt.Sprintf("post%d", img.idx), func() {
				defer func() { fin = true }()
				c := newMemClient(w, rr.h, n, cid)
				for i, op := range body.Post {
					if op.DelayMs > 0 {
						sleep(time.Duration(op.DelayMs) * time.Millisecond)
					}
					r := rr.h.invoke(cid, i, op)
					if c.Send(r) != nil {
						return
					}
					waitReply(r, 30*time.Second)
					if len(r.Replies) > 0 && r.Replies[0].Result == protocol.RESULT_SUCCED {
						granted = append(granted, r)
					}
				}
			})
			for i := 0; i < 6000 && !fin; i++ {
				sleep(10 * time.Millisecond)
			}
			rr.settle(n, 300)
			if w.res.HarnessErr != "" {
				return
			}
			var before map[string]*CanonKey
			ssched.NoPreempt(func() { before = canonSnapshot(n.sl) })
			w.kill(n.id)
			w.fault("kill")
			c := w.mkcfg(id, "", "")
			c.DataDir = img.dir
			n2 := w.boot(id, c)
			id++
			what := fmt.Sprintf("restart after recovery from crash image %d (%s: header + %d records + %d bytes) and %d new holds", img.idx, img.newest, img.nrec, img.residue, len(granted))
			if !rr.waitReady(n2, what) {
				return
			}
			sleep(300 * time.Millisecond)
			var after map[string]*CanonKey
			ssched.NoPreempt(func() { after = canonSnapshot(n2.sl) })
			w.probe("post_crash_restarts")
			for _, r := range granted {
				k := fmt.Sprintf("%d/%x", r.Op.Db, keyBytes(r.Op.Key))
				lid := fmt.Sprintf("%x", lidBytes(r.Op.Lid))
				b, a := before[k], after[k]
				if b == nil {
					continue
				}
				found := false
				if a != nil {
					for _, h := range a.Holds {
						if h.Lid == lid {
							found = true
						}
					}
				}
				w.probe("post_crash_holds_checked")
				if !found {
					w.violate("C08", "post_recovery_hold_lost", "%s: hold %s on key %s, taken with the persist-immediately flag after the recovery and persisted (queue drained), is not held after the following restart (recovered: %s)", what, lid[2:6], k, canonSig(after, false))
					break
				}
				if b.HasV && (a == nil || !a.HasV || a.Val != b.Val) {
					w.violate("C08", "post_recovery_value_lost", "%s: key %s had value %s before the restart, after it %v", what, k, b.Val, a)
					break
				}
			}
			w.kill(n2.id)
		}
	})
	end := w.S.Loop(func() bool {
		if len(w.S.Panics) > 0 {
			p := w.S.Panics[0]
			w.violate(w.sc.Prop, "server_crash@"+panicSite(p.Stack), "a server goroutine panicked: %s [task %s]", p.Value, p.Task)
			return true
		}
		return rr.done && w.S.ReadyLen() == 0 || len(w.res.Violations) > 0
	}, time.Duration(w.sc.MaxSimS)*time.Second)
	w.res.LoopEnd = end
	if end != "done" && w.res.HarnessErr == "" && len(w.res.Violations) == 0 {
		w.harnessErr("crash run did not finish: loop ended with %q", end)
	}
	w.res.Nontrivial = w.res.Probes["images_compared"] > 0 || w.res.Probes["post_crash_restarts"] > 0
	w.res.Faults["disk_writes"] = sos.D.Stats.Writes
}

func init() {
	kinds["crashcut"] = &kindFn{gen: genCrash, run: runCrash}
	propKinds["C08"] = append(propKinds["C08"], struct {
		Kind   string
		Weight int
	}{"crashcut", 10})
}
