package server

// W3 / C12: election safety in a replica set of real servers.
//
// 3-5 members (data nodes of different weights, possibly a weight-0 node or an arbiter) are
// started with a replset name, configured the way the admin commands do it (Config on the first,
// AddMember for the others) and elect a leader over the simulated transport. A client follows
// the leader and takes require-ack locks. Faults: the leader is killed (kill -9) at seeded
// moments and restarted later from its saved metadata, members are partitioned from each other,
// arbiter connections are reset after a seeded number of bytes (lost votes, proposals, commits
// and replies). After every accepted transport write the voter state of every live member is
// re-read:
//   - its accepted proposal number and committed number never decrease within an incarnation;
//   - all members that carry the same committed number name the same winner;
//   - no two live members are leaders for the same committed number;
//   - whoever becomes leader is a data-bearing member of non-zero weight.
// When faults have stopped, one leader must exist among the live members within a bounded
// simulated time and every lock that was acknowledged by a quorum (and not released, with a long
// term) must be held on it.

import (
	"encoding/json"
	"fmt"
	"path/filepath"
	"sort"
	"strings"
	"time"

	realos "os"

	"github.com/snower/slock/protocol"
	"github.com/snower/slock/simrt/snet"
	"github.com/snower/slock/simrt/ssched"
	"github.com/snower/slock/simrt/ssync"
)

type RSMember struct {
	Weight  uint32 `json:"weight"`
	Arbiter uint32 `json:"arbiter"`
}

type RSFault struct {
	Kind   string `json:"kind"` // kill_leader | kill_member | partition | isolate_leader
	A      int    `json:"a"`
	B      int    `json:"b"`
	AtMs   int    `json:"at_ms"`
	ForMs  int    `json:"for_ms"`
	DownMs int    `json:"down_ms"`
	Group  uint   `json:"group,omitempty"` // split: bit i set = member i is on the far side
	AfterAck int  `json:"after_ack,omitempty"` // kill_leader: >0 = wait for the next quorum-acknowledged lock, then that many ms minus one
}

// RSRogue: a client request sent to an arbitrary member, whatever its state at that moment (C10).
type RSRogue struct {
	AtMs   int    `json:"at_ms"`
	Member int    `json:"member"`
	Op     OpSpec `json:"op"`
}

type RSBody struct {
	// Short: holds of a few seconds taken through the leader of the moment shortly before a fault (Member is
	// ignored), so that their deadlines pass on the other members while nobody leads (C10: a member that is
	// voting or being reconfigured does not end a replicated hold on its own clock either)
	Short    []RSRogue  `json:"short,omitempty"`
	Rogue    []RSRogue  `json:"rogue,omitempty"`
	Members  []RSMember `json:"members"`
	Faults   []RSFault  `json:"faults"`
	CutBytes []int      `json:"cut_bytes"` // successive arbiter connections: reset after k bytes from the acceptor (0 = never)
	Ops      []OpSpec   `json:"ops"`
	RunMs    int        `json:"run_ms"`
	BudgetS  int        `json:"budget_s"`
}

func genReplset(prop string, seed uint64, tier string) *Scenario {
	r := ssched.Sub(seed, "gen")
	pipelineOK = false
	n := 3
	if r.Intn(3) == 0 {
		n = 4 + r.Intn(2)
	}
	body := &RSBody{RunMs: 15000 + r.Intn(25000), BudgetS: 180}
	for i := 0; i < n; i++ {
		m := RSMember{Weight: uint32(1 + r.Intn(3))}
		if i >= 2 {
			switch r.Intn(5) {
			case 0:
				m.Arbiter, m.Weight = 1, 0
			case 1:
				m.Weight = 0
			}
		}
		body.Members = append(body.Members, m)
	}
	nf := 1 + r.Intn(3)
	t := 2000
	for i := 0; i < nf; i++ {
		t += 1000 + r.Intn(8000)
		f := RSFault{AtMs: t, ForMs: 1000 + r.Intn(10000), DownMs: 2000 + r.Intn(12000), A: r.Intn(n), B: r.Intn(n)}
		switch r.Intn(6) {
		case 0, 1, 2:
			f.Kind = "kill_leader"
		case 3:
			f.Kind = "kill_member"
		case 4:
			f.Kind = "partition"
		default:
			f.Kind = "isolate_leader"
		}
		body.Faults = append(body.Faults, f)
	}
	forceMajority := false
	{
		// drawn from generators of their own: a network split into two groups (often right after the
		// leader was killed), and member mixes with several arbiters
		sp := ssched.Sub(seed, "split")
		if n >= 4 && sp.Intn(4) == 0 {
			for i := n - 2; i < n; i++ {
				body.Members[i].Arbiter, body.Members[i].Weight = 1, 0
			}
		}
		if n >= 4 && sp.Intn(5) == 0 {
			// stale electable members: two data members of weight 0 stay with the first leader (they
			// acknowledge its locks), the members that can be elected are cut off from it and fall
			// behind; the leader is killed during the split and stays down while the rest elects
			for i := 1; i < n; i++ {
				body.Members[i].Arbiter, body.Members[i].Weight = 0, uint32(1+sp.Intn(3))
			}
			body.Members[1].Weight, body.Members[2].Weight = 0, 0
			g := uint(0)
			for i := 3; i < n; i++ {
				g |= 1 << uint(i)
			}
			t1 := 2500 + sp.Intn(6000)
			kill := t1 + 100 + sp.Intn(1500)
			if sp.Intn(3) == 0 {
				kill = t1 + 1500 + sp.Intn(4000)
			}
			heal := kill + 2500 + sp.Intn(4000)
			body.Faults = nil
			if sp.Intn(2) == 0 {
				body.Faults = append(body.Faults, RSFault{Kind: "split", AtMs: t1, ForMs: heal - t1, Group: g})
			} else {
				// only the leader's links to the electable members are cut: they fall behind, but an
				// election after the leader's death has its quorum at once
				// (cut only shortly before the kill: what they miss is newer than what the members have
				// told each other about their positions, which they do every 2 s)
				kill = t1 + 1 + sp.Intn(60) // the kill then waits for the next acknowledged lock
				for i := 3; i < n; i++ {
					body.Faults = append(body.Faults, RSFault{Kind: "partition", A: 0, B: i, AtMs: t1, ForMs: heal - t1})
				}
			}
			// right after an acknowledged lock: nobody has heard of the new log position yet
			body.Faults = append(body.Faults, RSFault{Kind: "kill_leader", AtMs: kill, DownMs: heal - kill + 8000 + sp.Intn(8000), AfterAck: 1 + sp.Intn(30)})
			forceMajority = true
			for i := range body.Ops {
				if body.Ops[i].DelayMs > 700 {
					body.Ops[i].DelayMs = 100 + sp.Intn(600)
				}
			}
		} else if sp.Intn(3) == 0 {
			f := RSFault{Kind: "split", AtMs: 3000 + sp.Intn(20000), ForMs: 3000 + sp.Intn(15000), Group: uint(1 + sp.Intn(1<<uint(n)-2))}
			if k := sp.Intn(len(body.Faults)); body.Faults[k].Kind == "kill_leader" && sp.Intn(3) > 0 {
				f.AtMs = body.Faults[k].AtMs + sp.Intn(300)
				if f.ForMs > body.Faults[k].DownMs {
					body.Faults[k].DownMs = f.ForMs + sp.Intn(3000) // the old leader stays down while the rest is split
				}
			}
			body.Faults = append(body.Faults, f)
		}
	}
	if r.Intn(2) == 0 {
		for i, k := 0, 2+r.Intn(12); i < k; i++ {
			v := 0
			if r.Intn(2) == 0 {
				v = 1 + r.Intn(600)
			}
			body.CutBytes = append(body.CutBytes, v)
		}
	}
	for i, k := 0, 6+r.Intn(20); i < k; i++ {
		o := OpSpec{Cmd: 1, Key: i, Lid: 200 + i, DelayMs: 200 + r.Intn(2000), Timeout: uint16(2 + r.Intn(4)), TFlag: tfAck, Expried: 3000, Count: 0, Wait: true}
		if r.Intn(4) == 0 {
			o.TFlag = 0
			o.EFlag = efAof0
		}
		body.Ops = append(body.Ops, o)
	}
	{
		// requests to arbitrary members in whatever state they are in (own keys, own LockIds), drawn
		// from a generator of their own
		rg := ssched.Sub(seed, "rogue")
		for i, k := 0, rg.Intn(25); i < k; i++ {
			o := OpSpec{Cmd: 1, Key: 100 + rg.Intn(3), Lid: 400 + rg.Intn(4), Timeout: uint16(rg.Intn(2)), Expried: uint16(2 + rg.Intn(10)), Count: []uint16{0, 2}[rg.Intn(2)]}
			if rg.Intn(3) == 0 {
				o.Cmd = 2
			}
			at := rg.Intn(body.RunMs + 8000)
			if rg.Intn(2) == 0 {
				// right after a fault (an election is likely to be running), and again when it ends
				f := body.Faults[rg.Intn(len(body.Faults))]
				at = f.AtMs + rg.Intn(2500)
				if rg.Intn(3) == 0 {
					at = f.AtMs + f.DownMs + rg.Intn(2500)
				}
			}
			body.Rogue = append(body.Rogue, RSRogue{AtMs: at, Member: rg.Intn(n), Op: o})
		}
		sort.Slice(body.Rogue, func(a, b int) bool { return body.Rogue[a].AtMs < body.Rogue[b].AtMs })
	}
	if sh := ssched.Sub(seed, "shortholds"); sh.Intn(2) == 0 {
		// a generator of its own (the requests drawn above stay what they were)
		i := 0
		for _, f := range body.Faults {
			if f.Kind != "kill_leader" && f.Kind != "split" {
				continue
			}
			for k, n := 0, 2+sh.Intn(4); k < n; k++ {
				i++
				at := f.AtMs - 100 - sh.Intn(1900)
				if at < 0 {
					at = 0
				}
				o := OpSpec{Cmd: 1, Key: 110 + i, Lid: 500 + i, Expried: uint16(1 + sh.Intn(7)), EFlag: efAof0, Count: 0}
				body.Short = append(body.Short, RSRogue{AtMs: at, Op: o})
			}
		}
		sort.Slice(body.Short, func(a, b int) bool { return body.Short[a].AtMs < body.Short[b].AtMs })
	}
	raw, _ := json.Marshal(body)
	k := genKnobs(r)
	k.AofAckMode = uint(r.Intn(2))
	if forceMajority {
		k.AofAckMode = 1 // majority: the cut-off members are not needed for an acknowledgement
	}
	k.DBLockAofTime = 0
	if rot := ssched.Sub(seed, "rotate"); rot.Intn(3) == 0 {
		// drawn from a generator of its own: logs that rotate every few records, so that the members'
		// positions differ in the file index as well as in the record count
		k.AofFileRewriteSize = uint(12 + 64*(2+rot.Intn(6)))
	}
	sc := &Scenario{Knobs: k, Sched: genSched(r, seed), Body: raw, MaxSimS: 6000}
	sc.Net = NetCfg{LatencyUs: 200 + r.Intn(300)}
	if r.Intn(3) == 0 {
		sc.Net = NetCfg{LatencyUs: 200 + r.Intn(4000), JitterUs: r.Intn(4000)}
	}
	return sc
}

type rsMemberRun struct {
	committedSinceBoot bool // the member's committed number has changed since its last start
	seenSinceBoot      bool
	everLeader         bool // was leader at some moment of the run (any incarnation)
	leaderSpell int // counts the member's spells as leader

	idx   int
	spec  RSMember
	host  string
	port  uint
	dir   string
	node  *Node
	inc   int
	lastP uint64
	lastC uint64
	wasLd bool
	seenP uint64
	seenC uint64
	// killedAsLeader: this member was killed while it was the leader (whatever it had written
	// last may have reached nobody)
	killedAsLeader bool
}

func runReplset(w *World) {
	body := &RSBody{}
	if err := json.Unmarshal(w.sc.Body, body); err != nil {
		w.harnessErr("bad body: %v", err)
		return
	}
	h := newHistory(w)
	rr := &restartRun{w: w, h: h}
	ms := make([]*rsMemberRun, len(body.Members))
	done := false
	bootMember := func(m *rsMemberRun) {
		id := 10*(m.idx+1) + m.inc
		m.inc++
		cfg := w.mkcfg(id, "", "rs")
		cfg.DataDir, cfg.Port = m.dir, m.port
		m.node = w.boot(id, cfg)
		m.lastP, m.lastC, m.wasLd, m.seenP, m.seenC = 0, 0, false, 0, 0
		m.committedSinceBoot, m.seenSinceBoot = false, false
	}
	live := func(m *rsMemberRun) bool {
		return m.node != nil && m.node.up && m.node.sl != nil && m.node.sl.arbiterManager != nil && !ssched.NodeDead(m.node.id)
	}
	leaderOf := func() *rsMemberRun {
		var l *rsMemberRun
		for _, m := range ms {
			if live(m) && m.node.ready && m.node.sl.state == STATE_LEADER {
				if l != nil {
					return nil
				}
				l = m
			}
		}
		return l
	}
	// connection cuts on arbiter links
	cutIdx := 0
	memberOfNode := func(node int) *rsMemberRun {
		i := node/10 - 1
		if node >= 10 && i >= 0 && i < len(ms) {
			return ms[i]
		}
		return nil
	}
	cutsOn := true
	snet.N.OnDial = func(cl, sv *snet.SimConn) {
		if !cutsOn || memberOfNode(cl.Node) == nil || memberOfNode(sv.Node) == nil {
			return
		}
		if cutIdx < len(body.CutBytes) {
			if k := body.CutBytes[cutIdx]; k > 0 {
				sv.CutAfter(int64(k))
				w.fault("member_conn_cut_planned")
			}
			cutIdx++
		}
	}
	// invariants, re-read after every accepted transport write
	winners := map[uint64]string{}
	var acked []*ReqRec // require-ack locks answered SUCCED
	lostToLongerLog := map[[16]byte]string{}
	majorityFor := map[uint64]string{} // committed number -> host a majority of the members has committed it for
	var noteCommit func(c uint64, host string, idx int)
	cfgCommit := uint64(0)
	usedNumber := map[string]bool{}
	committedBy := map[string]map[int]bool{} // "committed number/host" -> members seen to have committed that number for that host
	noteCommit = func(c uint64, host string, idx int) {
		k := fmt.Sprintf("%d/%s", c, host)
		if committedBy[k] == nil {
			committedBy[k] = map[int]bool{}
		}
		if committedBy[k][idx] {
			return
		}
		committedBy[k][idx] = true
		// two candidacies cannot both gather a commit majority: a committed number has a majority for
		// one host at most (a member commits a number once)
		if len(committedBy[k]) >= len(ms)/2+1 {
			if prev, ok := majorityFor[c]; ok && prev != host {
				w.violate("C12", "two_commit_majorities_for_one_number", "committed number %d has been committed by a majority of the members for %s and by a majority for %s", c, prev, host)
			}
			majorityFor[c] = host
			w.probe("commit_majorities_observed")
		}
	}
	armed := false // the configuration phase (members being added, told to quit and re-added) is not an election
	check := func() {
		// what each member has committed, and for whom, is noted from the very start (the numbers of
		// the configuration phase stay in force afterwards)
		for _, m := range ms {
			if m == nil || !live(m) {
				continue
			}
			if v := m.node.sl.arbiterManager.voter; v.commitId != 0 && v.proposalHost != "" {
				noteCommit(v.commitId, v.proposalHost, m.idx)
			}
		}
		if !armed {
			return
		}
		for _, m := range ms {
			if !live(m) {
				continue
			}
			am := m.node.sl.arbiterManager
			v := am.voter
			if am.ownMember == nil || len(am.members) == 0 {
				// told to quit the set (it is re-added later): it starts again from nothing, like a
				// member that was never configured
				m.lastP, m.lastC = 0, 0
				w.probe("member_outside_the_set")
				continue
			}
			if v.proposalId < m.lastP {
				w.violate("C12", "proposal_number_decreased", "member %s (node n%d): accepted proposal number went from %d to %d", m.host, m.node.id, m.lastP, v.proposalId)
			}
			if v.commitId < m.lastC {
				w.violate("C12", "commit_number_decreased", "member %s (node n%d): committed number went from %d to %d", m.host, m.node.id, m.lastC, v.commitId)
			}
			if v.commitId != m.lastC && m.seenSinceBoot {
				m.committedSinceBoot = true
			}
			m.seenSinceBoot = true
			m.lastP, m.lastC = v.proposalId, v.commitId
			if v.commitId != 0 && v.proposalHost != "" {
				if prev, ok := winners[v.commitId]; ok && prev != v.proposalHost {
					// two candidates that drew the same number have each committed it for their own choice on
					// their own acceptor: harmless as long as only one of them finds a majority (noteCommit)
					w.probe("one_number_two_names")
				}
				winners[v.commitId] = v.proposalHost
				w.probe("commits_observed")
			}
			isLd := m.node.sl.state == STATE_LEADER
			if isLd != m.wasLd {
				m.leaderSpell++
			}
			if isLd && !m.wasLd {
				// F68 seen from the election: a live member holds an acknowledged lock, its log is, by file
				// index and offset, no longer than the new leader's, and the new leader does not hold the
				// lock: the two logs belong to different histories and the longer one won
				for _, r := range acked {
					if holdsLock(m.node.sl, r) {
						continue
					}
					for _, o := range ms {
						if o != m && live(o) && o.node.sl.aof != nil && m.node.sl.aof != nil && holdsLock(o.node.sl, r) {
							oi, oo, li, lo := o.node.sl.aof.aofFileIndex, o.node.sl.aof.aofFileOffset, m.node.sl.aof.aofFileIndex, m.node.sl.aof.aofFileOffset
							if li > oi || (li == oi && lo >= oo) {
								lostToLongerLog[r.Id] = fmt.Sprintf("when %s became leader its log stood at %d/%d and lacked the lock, the log of %s stood at %d/%d and had it", m.host, li, lo, o.host, oi, oo)
							}
						}
					}
				}
				// a new leader stands on a commit majority: more than half of all members have committed
				// its number for it (counted from what each member was seen to commit, whatever the
				// member's own idea of a majority is)
				// (the number is the one of the election that named it, which the new leader's own acceptor
				// may have refused: any number no earlier spell of this member has stood on)
				cnt, need, found := len(committedBy[fmt.Sprintf("%d/%s", v.commitId, m.host)]), len(ms)/2+1, false
				for k, by := range committedBy {
					var c uint64
					var h string
					if _, err := fmt.Sscanf(k, "%d/%s", &c, &h); err != nil || h != m.host || c <= cfgCommit || usedNumber[k] {
						continue
					}
					if len(by) >= need {
						found = true
						usedNumber[k] = true
					}
				}
				if !found && v.commitId > cfgCommit {
					class := "leader_without_commit_majority"
					if m.everLeader {
						// F48: a former leader (restarted from its saved metadata, or one that has quit the
						// lead) is put back by a stale picture of the set, without an election
						class = "former_leader_without_commit_majority"
					}
					w.violate("C12", class, "member %s (node n%d, start %d) became leader with committed number %d: %d of %d members have committed that number for it (a majority is %d) and no other number that a majority has committed for it is left unused by its earlier spells as leader", m.host, m.node.id, m.inc, v.commitId, cnt, len(ms), need)
				}
				w.probe("leader_majorities_checked")
				w.probe("leaders_elected")
				w.logf("LEADER %s (node n%d) commit %d weight %d arbiter %d", m.host, m.node.id, v.commitId, m.spec.Weight, m.spec.Arbiter)
				if m.spec.Arbiter != 0 || m.spec.Weight == 0 {
					w.violate("C12", "ineligible_leader", "member %s became leader although it is an arbiter (%d) or has weight %d", m.host, m.spec.Arbiter, m.spec.Weight)
				}
			}
			m.wasLd = isLd
			if isLd {
				m.everLeader = true
			}
		}
		for i, a := range ms {
			for _, b := range ms[i+1:] {
				if live(a) && live(b) && a.node.sl.state == STATE_LEADER && b.node.sl.state == STATE_LEADER {
					ca, cb := a.node.sl.arbiterManager.voter.commitId, b.node.sl.arbiterManager.voter.commitId
					if ca == cb {
						w.violate("C12", "two_leaders_for_one_commit_number", "members %s and %s are both leaders with committed number %d", a.host, b.host, ca)
					}
				}
			}
		}
	}
	snet.N.Tap = func(ev snet.TapEvent) { check() }
	defer func() { snet.N.Tap = nil }()
	// acceptor rule, read at every mutex release on a member's node: when the commit path (a commit
	// request from a candidate, or the candidate's own acceptor) changes the member's committed
	// number, the new committed number is the number the member has accepted — a member that has
	// meanwhile accepted a higher number from another candidate must refuse the older commit, or two
	// overlapping candidacies can both collect a majority of commits
	lastSig := map[*PriorityMutex]string{}
	ssync.OnAnyRelease = func(mu *ssync.Mutex) {
		m := memberOfNode(ssched.CurrentNode())
		if m == nil || !live(m) || m.node.id != ssched.CurrentNode() {
			return
		}
		// C10: the lock state guarded by a shard mutex is changed by the task that holds it; on a
		// member that is not the leader no such change may come from serving a client
		if m.node.sl.state == STATE_LEADER {
			m.everLeader = true
		}
		if pm := shardOf(m.node.sl, mu); pm != nil {
			sig := shardLockSig(m.node.sl, pm)
			old, seen := lastSig[pm]
			lastSig[pm] = sig
			if !((!seen && sig == "") || old == sig) && m.node.sl.state != STATE_LEADER {
				cls, stack := stackClass()
				w.probe("member_state_changes_" + cls)
				if cls == "other" {
					w.logf("MEMBER STATE CHANGE (other) n%d state %d: %s => %s [%s]", m.node.id, m.node.sl.state, old, sig, stack)
				}
				if cls == "client" {
					w.violate("C10", "non_leader_decided", "member %s (node n%d, state %d) changed its lock state while serving a client: %s => %s [%s]", m.host, m.node.id, m.node.sl.state, old, sig, stack)
				}
				// a member that has never led holds nothing but replicated holds: in no state (follower, syncing,
				// voting, reconfiguring) may its own sweepers end one of them or time a request out
				if (cls == "expiry_sweeper" || cls == "timeout_sweeper") && !m.everLeader {
					w.violate("C10", "non_leader_"+cls+"_changed_state", "member %s (node n%d, state %d, never a leader in this run) changed its lock state on its own clock: %s => %s [%s]", m.host, m.node.id, m.node.sl.state, old, sig, stack)
				}
			}
		}
		v := m.node.sl.arbiterManager.voter
		p, c := v.proposalId, v.commitId
		if mu == v.glock && c != 0 && v.proposalHost != "" {
			// what the member has committed, and for whom, as its acceptor leaves it (a candidacy of
			// its own that fails a moment later clears the name again)
			noteCommit(c, v.proposalHost, m.idx)
		}
		if armed && c != m.seenC && mu == v.glock {
			_, all := stackClass()
			if strings.Contains(all, "DoSelfCommit") || strings.Contains(all, "commandHandleCommitCommand") {
				w.probe("acceptor_commits_observed")
				if c != p {
					w.violate("C12", "acceptor_committed_unaccepted_number", "member %s (node n%d) committed number %d on a commit request although the number it has accepted is %d: it takes part in the commit majority of a candidacy it has already abandoned for a newer one (previous committed number %d, named host %s)", m.host, m.node.id, c, p, m.seenC, v.proposalHost)
				}
			}
		}
		m.seenP, m.seenC = p, c
	}
	defer func() { ssync.OnAnyRelease = nil }()

	ackSeen := 0
	storm := false
	ssched.SpawnOn(0, "rs-driver", func() {
		defer func() { done = true }()
		for i, spec := range body.Members {
			m := &rsMemberRun{idx: i, spec: spec, port: uint(5010 + i), dir: filepath.Join(w.root, fmt.Sprintf("member%d", i))}
			m.host = fmt.Sprintf("127.0.0.1:%d", m.port)
			_ = realos.MkdirAll(m.dir, 0755)
			ms[i] = m
			bootMember(m)
		}
		for _, m := range ms {
			if !rr.waitReady(m.node, "member "+m.host+" start") {
				return
			}
		}
		// configure the set on the first member, add the others (what the admin commands do)
		cfgDone := false
		ssched.SpawnOn(ms[0].node.id, "rs-config", func() {
			am := ms[0].node.sl.arbiterManager
			if err := am.Config(ms[0].host, ms[0].spec.Weight, ms[0].spec.Arbiter); err != nil {
				w.harnessErr("replset config: %v", err)
				return
			}
			for _, m := range ms[1:] {
				for try := 0; try < 50; try++ {
					if ms[0].node.sl.state == STATE_LEADER {
						break
					}
					sleep(100 * time.Millisecond)
				}
				if err := am.AddMember(m.host, m.spec.Weight, m.spec.Arbiter); err != nil {
					w.harnessErr("replset add member %s: %v", m.host, err)
					return
				}
			}
			cfgDone = true
		})
		for i := 0; i < 1200 && !cfgDone && w.res.HarnessErr == ""; i++ {
			sleep(50 * time.Millisecond)
		}
		if !cfgDone {
			if w.res.HarnessErr == "" {
				w.harnessErr("replset configuration did not finish within 60 s")
			}
			return
		}
		// settled: one leader, everybody else follower or arbiter
		settled := func() bool {
			l := leaderOf()
			if l == nil {
				return false
			}
			for _, m := range ms {
				if !live(m) || !m.node.ready {
					continue
				}
				st := m.node.sl.state
				if m != l && st != STATE_FOLLOWER && !(m.spec.Arbiter != 0) {
					return false
				}
			}
			return true
		}
		ok := false
		for i := 0; i < 2400; i++ {
			if settled() {
				ok = true
				break
			}
			sleep(50 * time.Millisecond)
		}
		if !ok {
			var st []string
			for _, m := range ms {
				st = append(st, fmt.Sprintf("%s state %d", m.host, m.node.sl.state))
			}
			// configuring the set is outside the property: noted, nothing is judged in this run
			w.probe("setup_not_settled")
			w.logf("SETUP NOT SETTLED within 120 s of the configuration: %s", strings.Join(st, ", "))
			return
		}
		w.probe("sets_configured")
		for _, m := range ms {
			if live(m) {
				v := m.node.sl.arbiterManager.voter
				m.lastP, m.lastC, m.wasLd = v.proposalId, v.commitId, m.node.sl.state == STATE_LEADER
				m.everLeader = m.wasLd
			}
		}
		for _, m := range ms {
			if live(m) {
				if c := m.node.sl.arbiterManager.voter.commitId; c > cfgCommit {
					cfgCommit = c // numbers handed out while the set was configured were not voted on
				}
			}
		}
		armed = true
		t0 := w.now()
		at := func(msd int) {
			if d := t0.Add(time.Duration(msd) * time.Millisecond).Sub(w.now()); d > 0 {
				sleep(d)
			}
		}
		// C10: binary connections to arbitrary members, kept open across role changes; a request is
		// sent over the member's connection in whatever state the member is in at that moment
		ssched.SpawnOn(0, "rs-rogue", func() {
			conns := map[int]*binClient{}
			for i, rg := range body.Rogue {
				at(rg.AtMs)
				if done {
					break
				}
				mi := rg.Member % len(ms)
				m := ms[mi]
				if !live(m) || !m.node.ready {
					continue
				}
				c := conns[mi]
				if c != nil {
					select {
					case <-c.rdone:
						c.Close()
						c = nil
					default:
					}
				}
				if c == nil {
					nc, err := newBinClient(w, h, m.host, 1)
					if err != nil {
						continue
					}
					c, conns[mi] = nc, nc
					w.probe("rogue_connections")
				}
				rec := h.invoke(1, 1000+i, rg.Op)
				s0 := m.node.sl.state
				l0 := leaderOf()
				spell0 := 0
				if l0 != nil {
					spell0 = l0.leaderSpell
				}
				tSend := w.now()
				if c.Send(rec) != nil {
					continue
				}
				if !waitReply(rec, 20*time.Second) {
					w.probe("rogue_requests_unanswered")
					continue
				}
				w.probe("rogue_requests_answered")
				w.probe(fmt.Sprintf("rogue_to_state_%d", s0))
				res := rec.Replies[0].Result
				if res == protocol.RESULT_STATE_ERROR {
					w.probe("rogue_state_errors")
				}
				// a grant relayed by any member is a grant by the leader: when one member has been the
				// leader since before the request was sent and still is, it holds that lock now
				// (a reply that was held up in the network for most of the hold's term proves nothing)
				if l1 := leaderOf(); rg.Op.Cmd == protocol.COMMAND_LOCK && res == protocol.RESULT_SUCCED && w.now().Sub(tSend) < time.Duration(rg.Op.Expried-1)*time.Second && l0 != nil && l1 == l0 && l0.leaderSpell == spell0 && live(l0) {
					w.probe("rogue_grants_checked")
					held := false
					kb, lb := keyBytes(rg.Op.Key), lidBytes(rg.Op.Lid)
					if db := l0.node.sl.dbs[rg.Op.Db]; db != nil {
						for _, mg := range allManagers(db) {
							if mg.refCount == 0xffffffff || mg.lockKey != kb {
								continue
							}
							for _, lk := range holdersOf(mg) {
								if lk.command != nil && lk.command.LockId == lb {
									held = true
								}
							}
						}
					}
					if !held {
						w.violate("C10", "granted_but_not_held_on_leader", "request %s sent to member %s (state %d) was answered SUCCED, but the leader %s does not hold that LockId on that key", rec, m.host, s0, l0.host)
					}
				}
			}
			for _, c := range conns {
				c.Close()
			}
		})
		if len(body.Short) > 0 {
			ssched.SpawnOn(0, "rs-short", func() {
				for i, sh := range body.Short {
					at(sh.AtMs)
					if done {
						break
					}
					l := leaderOf()
					if l == nil || !live(l) || !l.node.ready {
						continue
					}
					c, err := newBinClient(w, h, l.host, 2)
					if err != nil {
						continue
					}
					rec := h.invoke(2, 2000+i, sh.Op)
					if c.Send(rec) == nil && waitReply(rec, 5*time.Second) && rec.Replies[0].Result == protocol.RESULT_SUCCED {
						w.probe("short_holds_before_fault")
					}
					c.Close()
				}
			})
		}
		fdone := 0
		for _, f := range body.Faults {
			f := f
			ssched.SpawnOn(0, "rs-fault-"+f.Kind, func() {
				defer func() { fdone++ }()
				at(f.AtMs)
				switch f.Kind {
				case "kill_leader", "kill_member":
					if f.AfterAck > 0 {
						n0 := ackSeen
						for i := 0; i < 8000 && ackSeen == n0; i++ {
							sleep(time.Millisecond)
						}
						sleep(time.Duration(f.AfterAck-1) * time.Millisecond)
					}
					var m *rsMemberRun
					if f.Kind == "kill_leader" {
						m = leaderOf()
					} else {
						m = ms[f.A%len(ms)]
					}
					if m == nil || !live(m) {
						return
					}
					if m.node.sl != nil && m.node.sl.state == STATE_LEADER {
						m.killedAsLeader = true
					}
					w.kill(m.node.id)
					w.fault(f.Kind)
					sleep(time.Duration(f.DownMs) * time.Millisecond)
					bootMember(m)
					w.fault("member_restart")
				case "partition":
					a, b := ms[f.A%len(ms)], ms[f.B%len(ms)]
					if a == b {
						return
					}
					for i := 0; i < 10; i++ {
						for j := 0; j < 10; j++ {
							snet.N.Partition(10*(a.idx+1)+i, 10*(b.idx+1)+j, true)
						}
					}
					w.fault("partition")
					sleep(time.Duration(f.ForMs) * time.Millisecond)
					for i := 0; i < 10; i++ {
						for j := 0; j < 10; j++ {
							snet.N.Partition(10*(a.idx+1)+i, 10*(b.idx+1)+j, false)
						}
					}
					w.fault("heal")
				case "split":
					set := func(on bool) {
						for _, a := range ms {
							for _, b := range ms {
								if a.idx < b.idx && (f.Group>>uint(a.idx))&1 != (f.Group>>uint(b.idx))&1 {
									for i := 0; i < 10; i++ {
										for j := 0; j < 10; j++ {
											snet.N.Partition(10*(a.idx+1)+i, 10*(b.idx+1)+j, on)
										}
									}
								}
							}
						}
					}
					set(true)
					w.fault("split")
					sleep(time.Duration(f.ForMs) * time.Millisecond)
					set(false)
					w.fault("heal")
				case "isolate_leader":
					l := leaderOf()
					if l == nil {
						return
					}
					set := func(on bool) {
						for _, o := range ms {
							if o == l {
								continue
							}
							for i := 0; i < 10; i++ {
								for j := 0; j < 10; j++ {
									snet.N.Partition(10*(l.idx+1)+i, 10*(o.idx+1)+j, on)
								}
							}
						}
					}
					set(true)
					w.fault("isolate_leader")
					sleep(time.Duration(f.ForMs) * time.Millisecond)
					set(false)
					w.fault("heal")
				}
			})
		}
		// the client follows the leader
		for i, op := range body.Ops {
			if w.now().Sub(t0) > time.Duration(body.RunMs)*time.Millisecond {
				break
			}
			sleep(time.Duration(op.DelayMs) * time.Millisecond)
			l := leaderOf()
			if l == nil {
				continue
			}
			op := op
			i := i
			fin := false
			var rec *ReqRec
			ssched.SpawnOn(l.node.id, fmt.Sprintf("rsclient%d", i), func() {
				defer func() { fin = true }()
				c := newMemClient(w, h, l.node, 0)
				rec = h.invoke(0, i, op)
				if c.Send(rec) != nil {
					return
				}
				if waitReply(rec, 20*time.Second) && rec.Replies[0].Result == protocol.RESULT_SUCCED && op.TFlag&tfAck != 0 {
					ackSeen++
				}
			})
			for k := 0; k < 2500 && !fin && !ssched.NodeDead(l.node.id); k++ {
				sleep(10 * time.Millisecond)
			}
			if rec != nil && len(rec.Replies) > 0 && rec.Replies[0].Result == protocol.RESULT_SUCCED && op.TFlag&tfAck != 0 {
				acked = append(acked, rec)
				w.probe("quorum_acked_locks")
			}
		}
		for fdone < len(body.Faults) {
			sleep(100 * time.Millisecond)
		}
		cutsOn = false
		for _, c := range snet.N.Conns {
			c.CutAfter(1 << 50)
		}
		// bounded liveness: one leader among the live members, everybody else following it
		deadline := w.now().Add(time.Duration(body.BudgetS) * time.Second)
		for !settled() {
			if w.now().After(deadline) {
				var st []string
				for _, m := range ms {
					if live(m) {
						v := m.node.sl.arbiterManager.voter
						st = append(st, fmt.Sprintf("%s (n%d): state %d role %d proposal %d commit %d named %q voting %v", m.host, m.node.id, m.node.sl.state, m.node.sl.arbiterManager.ownMember.role, v.proposalId, v.commitId, v.proposalHost, v.voting))
					} else {
						st = append(st, m.host+": down")
					}
				}
				// election liveness is not part of the property: noted, and the final check is skipped
				w.probe("not_settled_after_faults")
				w.logf("NOT SETTLED %d s after the last fault: %s", body.BudgetS, strings.Join(st, "; "))
				return
			}
			sleep(200 * time.Millisecond)
		}
		w.probe("settled_after_faults")
		l := leaderOf()
		sleep(2 * time.Second)
		if leaderOf() != l || l == nil {
			return // changed again; the invariants above still cover it
		}
		ssched.NoPreempt(func() {
			db := l.node.sl.dbs[0]
			for _, r := range acked {
				w.probe("quorum_acked_locks_checked")
				held := false
				if db != nil {
					kb, lb := keyBytes(r.Op.Key), lidBytes(r.Op.Lid)
					for _, m := range allManagers(db) {
						if m.refCount == 0xffffffff || m.lockKey != kb {
							continue
						}
						for _, hl := range holdersOf(m) {
							if hl.command != nil && hl.command.LockId == lb {
								held = true
							}
						}
					}
				}
				if why, ok := lostToLongerLog[r.Id]; !held && ok && !l.killedAsLeader {
					w.violate("C12", "quorum_acked_lock_lost_to_longer_log_of_another_history", "lock %s was answered SUCCED after a quorum had acknowledged it, was never released and its term has not passed, but the leader %s (node n%d) does not hold it: %s (positions are compared by file index and offset, finding F68)", r, l.host, l.node.id, why)
				} else if !held && l.killedAsLeader {
					// a leader that was killed comes back with the unreplicated tail of its own log: by
					// file index and offset that log is the longest, so it wins the next election
					// although it belongs to an abandoned history (finding F68)
					w.violate("C12", "quorum_acked_lock_lost_to_returned_leader", "lock %s was answered SUCCED after a quorum had acknowledged it, was never released and its term has not passed, but the leader %s (node n%d), a member that was killed while it was the leader and has been elected again, does not hold it", r, l.host, l.node.id)
				} else if nArb, nData := arbiterCount(body.Members); !held && len(body.Members)/2+1-nArb < nData/2+1 {
					// F81: the election majority counts arbiters, the acknowledgement quorum is a majority of
					// the data members: with this mix the two need not share a data member
					w.violate("C12", "quorum_acked_lock_lost_majority_by_arbiters", "lock %s was answered SUCCED after a quorum had acknowledged it, was never released and its term has not passed, but the leader %s (node n%d) does not hold it; the set has %d data members and %d arbiters, so a majority of the members need not contain a majority of the data members", r, l.host, l.node.id, nData, nArb)
				} else if !held {
					w.violate("C12", "quorum_acked_lock_lost", "lock %s was answered SUCCED after a quorum had acknowledged it, was never released and its term has not passed, but the leader %s (node n%d) does not hold it", r, l.host, l.node.id)
					return
				}
			}
		})
	})
	end := w.S.Loop(func() bool {
		if len(w.S.Panics) > 0 {
			p := w.S.Panics[0]
			w.violate(w.sc.Prop, "server_crash@"+panicSite(p.Stack), "a server goroutine panicked: %s [task %s]", p.Value, p.Task)
			return true
		}
		if w.S.Steps > 1500000 {
			// members answering announcements with announcements without simulated time passing:
			// the run is cut off; the invariants have been checked on every write up to here
			storm = true
			return true
		}
		return done && w.S.ReadyLen() == 0 || len(w.res.Violations) > 0
	}, time.Duration(w.sc.MaxSimS)*time.Second)
	w.res.LoopEnd = end
	if storm {
		w.probe("announcement_storm_cut_off")
	} else if end != "done" && w.res.HarnessErr == "" && len(w.res.Violations) == 0 {
		w.harnessErr("run did not finish: loop ended with %q", end)
	}
	w.res.Nontrivial = w.res.Probes["leaders_elected"] > 0
	_ = sort.Strings
}

func init() {
	kinds["replset"] = &kindFn{gen: genReplset, run: runReplset}
	propKinds["C12"] = append(propKinds["C12"], struct {
		Kind   string
		Weight int
	}{"replset", 10})
	// C10: requests to members in every state (vote, config, follower, a leader being deposed)
	propKinds["C10"] = append(propKinds["C10"], struct {
		Kind   string
		Weight int
	}{"replset", 1})
}

func arbiterCount(ms []RSMember) (arbiters, data int) {
	for _, m := range ms {
		if m.Arbiter != 0 {
			arbiters++
		} else {
			data++
		}
	}
	return
}

// holdsLock: the node's lock table has the request's LockId as a holder of its key.
func holdsLock(sl *SLock, r *ReqRec) bool {
	if sl == nil || int(r.Op.Db) >= len(sl.dbs) {
		return false
	}
	db := sl.dbs[r.Op.Db]
	if db == nil {
		return false
	}
	kb, lb := keyBytes(r.Op.Key), lidBytes(r.Op.Lid)
	for _, m := range allManagers(db) {
		if m.refCount == 0xffffffff || m.lockKey != kb {
			continue
		}
		for _, hl := range holdersOf(m) {
			if hl.command != nil && hl.command.LockId == lb {
				return true
			}
		}
	}
	return false
}
