package server

// Simulation harness: registry of scenario kinds and of the kinds each property's check runs.

func addKind(name string, g genCfg, props map[string]int) {
	kinds[name] = &kindFn{gen: func(prop string, seed uint64, tier string) *Scenario { return genCore(prop, seed, tier, g) }, run: runCore}
	for p, w := range props {
		propKinds[p] = append(propKinds[p], struct {
			Kind   string
			Weight int
		}{name, w})
	}
}

func init() {
	base := genCfg{profile: "mixed", nClients: [2]int{2, 5}, nOps: [2]int{5, 30}, nKeys: [2]int{1, 3}, nLids: [2]int{2, 5},
		counts: []uint16{0, 0, 1, 2, 3, 0xfffe, 0xffff}, pUnlock: 400, pWait: 500, pFlagShow: 40, pFlagUpdate: 80, pFlagConc: 40,
		pUnlockFirst: 80, pCancel: 80, pPriority: 60, pWaitUnl: 30, pMs: 60, pMinute: 10, pUnlim: 40, pData: 120, pAck: 0, pAofFlags: 150,
		timeouts: []uint16{0, 0, 1, 2, 3, 5}, expireds: []uint16{0, 1, 2, 3, 5, 5, 8}, rcounts: []uint8{0, 0, 1, 2, 3, 254, 255}, maxDelayMs: 900, twoDbs: true}
	addKind("core", base, map[string]int{"C01": 10, "C02": 10, "C03": 10, "C04": 8, "C05": 8, "C06": 8, "C17": 10})

	// serial: one in-memory client, one foreground request at a time (the engine answers or queues
	// synchronously), sweepers and executor concurrent: every reply field is predicted exactly
	serial := base
	serial.profile, serial.serial, serial.memOnly = "serial", true, true
	serial.nClients, serial.nOps = [2]int{1, 1}, [2]int{20, 80}
	serial.maxDelayMs = 700
	addKind("serial", serial, map[string]int{"C01": 3, "C02": 6, "C03": 2, "C04": 3, "C05": 4, "C06": 4, "C17": 6})

	// keyrace: keys that share one hash slot, exclusive (Count 0) short holds taken and released by
	// many clients at once, so that key managers are created, recycled and looked up concurrently
	race := genCfg{profile: "keyrace", nClients: [2]int{3, 6}, nOps: [2]int{10, 40}, nKeys: [2]int{2, 3}, nLids: [2]int{3, 6},
		counts: []uint16{0}, uniformCount: true, pUnlock: 480, pWait: 300, timeouts: []uint16{0, 0, 0, 1}, expireds: []uint16{1, 1, 2},
		rcounts: []uint8{0}, maxDelayMs: 3, memOnly: true, forceFastKeys: 1}
	addKind("keyrace", race, map[string]int{"C01": 6, "C02": 2, "C03": 3, "C17": 3})

	// keyrace-values: the same collisions (every key shares the one fast slot, so all but one live in the key
	// map), more keys than clients, values on a third of the requests: keys drain by expiry and unlock and
	// new keys are created on the managers they leave behind
	racev := race
	racev.profile, racev.pData, racev.nKeys, racev.maxDelayMs = "keyrace-values", 350, [2]int{3, 7}, 400
	racev.expireds = []uint16{1, 1, 2, 3}
	addKind("keyrace-values", racev, map[string]int{"C17": 3})

	// uniform: every user of a key passes the same Count c (0..3): never more than c+1 holds
	uni := base
	uni.profile, uni.uniformCount = "uniform-count", true
	uni.counts = []uint16{0, 0, 1, 2, 3}
	uni.nLids, uni.nClients = [2]int{4, 8}, [2]int{3, 6}
	uni.pFlagUpdate, uni.pFlagShow, uni.rcounts = 0, 0, []uint8{0}
	addKind("uniform", uni, map[string]int{"C01": 6})

	// manyholders: shared holds (Count 0xffff) by up to 300 LockIds on one key: the holder list
	// leaves its inline representation (>128 holders); unlocks, re-locks and expiries in between
	many := genCfg{profile: "many-holders", nClients: [2]int{2, 4}, nOps: [2]int{80, 200}, nKeys: [2]int{1, 1}, nLids: [2]int{140, 300},
		counts: []uint16{0xffff}, pUnlock: 250, pWait: 100, pUnlockFirst: 60, pFlagUpdate: 30, timeouts: []uint16{0, 1}, expireds: []uint16{3, 5, 8, 20},
		rcounts: []uint8{0, 1, 2, 255}, maxDelayMs: 20, memOnly: true}
	addKind("manyholders", many, map[string]int{"C02": 3, "C17": 2, "C01": 1})

	// holderwaves: one key shared (Count 0xffff) by 150-420 LockIds: fill, then release oldest-first,
	// newest-first or at random, every release possibly followed by a second unlock of the same
	// LockId (must be refused) or a re-lock; the holder bookkeeping crosses its inline -> map-backed
	// switch in both directions
	kinds["holderwaves"] = &kindFn{gen: genHolderWaves, run: runCore}
	for p, w := range map[string]int{"C02": 3, "C17": 1} {
		propKinds[p] = append(propKinds[p], struct {
			Kind   string
			Weight int
		}{"holderwaves", w})
	}

	// longqueue: one or two keys, exclusive or small-Count holds, up to 200 queued requests with
	// mixed priorities (queue representations inline -> ring -> priority ring), holds ending by
	// unlock, expiry and cancellation while waiters time out
	lq := genCfg{profile: "long-queue", nClients: [2]int{3, 6}, nOps: [2]int{30, 70}, nKeys: [2]int{1, 2}, nLids: [2]int{20, 200},
		counts: []uint16{0, 0, 1, 2}, uniformCount: true, pUnlock: 220, pWait: 0, pUnlockFirst: 300, pCancel: 150, pPriority: 250,
		timeouts: []uint16{2, 3, 5, 8, 10}, expireds: []uint16{0, 1, 1, 2, 3}, rcounts: []uint8{0, 1, 2, 3}, maxDelayMs: 60, memOnly: true, pData: 60}
	addKind("longqueue", lq, map[string]int{"C04": 8, "C05": 4, "C03": 3, "C17": 2, "C01": 2})

	// longtime: timeouts and expiries long enough to migrate to the long-wait tables (> 8
	// re-checks), minute flags, updates that lengthen or shorten a long expiry
	lt := base
	lt.profile = "long-times"
	lt.timeouts = []uint16{0, 3, 12, 20, 40, 90}
	lt.expireds = []uint16{2, 10, 15, 30, 60, 120}
	lt.pMinute, lt.pMs, lt.pFlagUpdate, lt.maxDelayMs = 120, 30, 200, 4000
	lt.nOps = [2]int{5, 20}
	addKind("longtime", lt, map[string]int{"C05": 5, "C06": 6, "C17": 2, "C03": 2})

	// values: value operations (SET UNSET INCR APPEND SHIFT PUSH POP PIPELINE, with and without
	// property headers) carried on lock, re-lock, update and unlock requests by several LockIds of
	// one key that may hold it together; concurrent and serialised variants
	val := base
	val.profile, val.pData, val.pipelines = "values", 750, true
	val.nKeys, val.nLids = [2]int{1, 2}, [2]int{2, 4}
	val.counts = []uint16{2, 3, 0xffff, 0xffff}
	val.pFlagUpdate, val.pUnlock, val.pMs, val.pMinute, val.pCancel, val.pWaitUnl = 150, 350, 20, 0, 30, 0
	val.expireds = []uint16{0, 2, 3, 5, 8}
	addKind("values", val, map[string]int{"C15": 10})
	vals := val
	vals.profile, vals.serial, vals.memOnly = "values-serial", true, true
	vals.nClients, vals.nOps = [2]int{1, 1}, [2]int{30, 90}
	addKind("values-serial", vals, map[string]int{"C15": 6})

	// ackcore: the mixed workload with the require-ack flag on a share of the lock requests: on a
	// lone leader the acknowledgement is the local log write, so grants are answered by the
	// persistence channel's goroutine (one more kind of replying goroutine racing the others)
	ack := base
	ack.profile, ack.pAck, ack.pMs, ack.pMinute = "ack-core", 250, 20, 0
	ack.timeouts = []uint16{0, 1, 2, 3, 5}
	ack.noMonitor = true // the reference model does not cover grants that wait for an acknowledgement (C11's harness does)
	// no text connections: finding F8 (a grant's reply built from a command object that a re-lock or unlock
	// by another request has meanwhile recycled) leaves a text connection without any reply for good, and
	// without the monitor such a run cannot be told from a lost reply (the core kinds attribute it)
	ack.noText = true
	addKind("ackcore", ack, map[string]int{"C03": 3})

	// hugeterms: timeouts and expiries of hours, days and weeks (seconds up to 65535, minutes up to
	// 65535): nothing may end early; at the end the drain client cancels and releases what is left
	huge := base
	huge.profile, huge.shortDrain, huge.noText, huge.pWait = "huge-terms", true, true, 0
	huge.timeouts = []uint16{0, 2, 5, 300, 4000, 65535}
	huge.expireds = []uint16{2, 5, 300, 4000, 65535}
	huge.pMinute, huge.pMs = 350, 20
	huge.minuteVals = []uint16{1, 2, 60, 1092, 1093, 1100, 12015, 65535}
	huge.nOps, huge.maxDelayMs = [2]int{5, 20}, 2500
	huge.twoDbs = false
	addKind("hugeterms", huge, map[string]int{"C05": 3, "C06": 3})

	// deepreentry: see genDeepReentry
	kinds["deepreentry"] = &kindFn{gen: genDeepReentry, run: runCore}
	for p, w := range map[string]int{"C02": 2, "C17": 1} {
		propKinds[p] = append(propKinds[p], struct {
			Kind   string
			Weight int
		}{"deepreentry", w})
	}

	// mshandover: see genMsHandover
	kinds["mshandover"] = &kindFn{gen: genMsHandover, run: runCore}
	propKinds["C05"] = append(propKinds["C05"], struct {
		Kind   string
		Weight int
	}{"mshandover", 2})

	// longwaiters: see genLongWaiters
	kinds["longwaiters"] = &kindFn{gen: genLongWaiters, run: runCore}
	propKinds["C05"] = append(propKinds["C05"], struct {
		Kind   string
		Weight int
	}{"longwaiters", 2})

	// longtable: see genLongTable
	kinds["longtable"] = &kindFn{gen: genLongTable, run: runCore}
	propKinds["C06"] = append(propKinds["C06"], struct {
		Kind   string
		Weight int
	}{"longtable", 3})

	// tickrace: see genTickRace
	kinds["tickrace"] = &kindFn{gen: genTickRace, run: runCore}
	propKinds["C06"] = append(propKinds["C06"], struct {
		Kind   string
		Weight int
	}{"tickrace", 2})
	for _, pp := range []string{"C04", "C05"} {
		propKinds[pp] = append(propKinds[pp], struct {
			Kind   string
			Weight int
		}{"tickrace", 1})
	}

	// keyreuse: see genKeyReuse
	kinds["keyreuse"] = &kindFn{gen: genKeyReuse, run: runCore}
	propKinds["C17"] = append(propKinds["C17"], struct {
		Kind   string
		Weight int
	}{"keyreuse", 2})

	// longholes: see genLongHoles
	kinds["longholes"] = &kindFn{gen: genLongHoles, run: runCore}
	propKinds["C06"] = append(propKinds["C06"], struct {
		Kind   string
		Weight int
	}{"longholes", 1})

	// waitholes: see genWaitHoles
	kinds["waitholes"] = &kindFn{gen: genWaitHoles, run: runCore}
	propKinds["C05"] = append(propKinds["C05"], struct {
		Kind   string
		Weight int
	}{"waitholes", 1})

	// queuemigrate: see genQueueMigrate
	kinds["queuemigrate"] = &kindFn{gen: genQueueMigrate, run: runCore}
	propKinds["C04"] = append(propKinds["C04"], struct {
		Kind   string
		Weight int
	}{"queuemigrate", 2})

	// fullcount: see genFullCount
	kinds["fullcount"] = &kindFn{gen: genFullCount, run: runCore}
	propKinds["C01"] = append(propKinds["C01"], struct {
		Kind   string
		Weight int
	}{"fullcount", 1})

	// msheavy: millisecond timeouts and expiries
	msk := base
	msk.profile, msk.pMs, msk.maxDelayMs = "milliseconds", 500, 300
	addKind("msheavy", msk, map[string]int{"C05": 3, "C06": 3})
}
