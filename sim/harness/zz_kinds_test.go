package server

// Simulation harness: registry of scenario kinds and of the kinds each property's check runs.

func init() {
	base := genCfg{profile: "mixed", nClients: [2]int{2, 5}, nOps: [2]int{5, 30}, nKeys: [2]int{1, 3}, nLids: [2]int{2, 5},
		counts: []uint16{0, 0, 1, 2, 3, 0xfffe, 0xffff}, pUnlock: 400, pWait: 500, pFlagShow: 40, pFlagUpdate: 80, pFlagConc: 40,
		pUnlockFirst: 80, pCancel: 80, pPriority: 60, pWaitUnl: 30, pMs: 60, pMinute: 10, pUnlim: 40, pData: 120, pAck: 0, pAofFlags: 150,
		timeouts: []uint16{0, 0, 1, 2, 3, 5}, expireds: []uint16{0, 1, 2, 3, 5, 5, 8}, rcounts: []uint8{0, 0, 1, 2, 3, 254, 255}, maxDelayMs: 900, twoDbs: true}
	kinds["core"] = &kindFn{gen: func(prop string, seed uint64, tier string) *Scenario { return genCore(prop, seed, tier, base) }, run: runCore}
	// keyrace: keys that share one hash slot, exclusive (Count 0) short holds taken and released by
	// many clients at once, so that key managers are created, recycled and looked up concurrently
	race := genCfg{profile: "keyrace", nClients: [2]int{3, 6}, nOps: [2]int{10, 40}, nKeys: [2]int{2, 3}, nLids: [2]int{3, 6},
		counts: []uint16{0}, uniformCount: true, pUnlock: 480, pWait: 300, timeouts: []uint16{0, 0, 0, 1}, expireds: []uint16{1, 1, 2},
		rcounts: []uint8{0}, maxDelayMs: 3, memOnly: true, forceFastKeys: 1}
	kinds["keyrace"] = &kindFn{gen: func(prop string, seed uint64, tier string) *Scenario { return genCore(prop, seed, tier, race) }, run: runCore}
	propKinds["C01"] = append(propKinds["C01"], struct {
		Kind   string
		Weight int
	}{"keyrace", 6})
	propKinds["C17"] = append(propKinds["C17"], struct {
		Kind   string
		Weight int
	}{"keyrace", 3})
	for _, p := range []string{"C01", "C02", "C03", "C04", "C05", "C06", "C15", "C17"} {
		propKinds[p] = append(propKinds[p], struct {
			Kind   string
			Weight int
		}{"core", 10})
	}
}
