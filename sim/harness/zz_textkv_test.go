package server

// Simulation harness: scenario kind "textkv" (C15, second sentence): the Redis-style commands of the
// text protocol (SET GET DEL SETNX GETSET INCR/DECR(BY) APPEND EXISTS STRLEN EXPIRE PERSIST, SETEX
// and SET .. EX) must answer like a plain key-value store.
//
// World: one leader, 1-3 "lanes" running concurrently. A lane owns a few keys and 1-2 text
// connections and issues its command lines one after the other (any connection of the lane), so the
// order of the commands on a key is known and the oracle is an ordinary map. Sweepers, persistence,
// other lanes, stream fragmentation and the seeded scheduler run underneath.
//
// What the oracle does not judge (the property is silent): the time-to-live of a key after INCR or
// APPEND (re-read after the old deadline), operations that mix value types (INCR on a value written
// by SET, APPEND on a number), and the exact instant of an expiry (a key is never observed between
// its earliest and latest permitted end, C06's window).

import (
	"encoding/json"
	"fmt"
	"strconv"
	"time"

	"github.com/snower/slock/simrt/ssched"
)

type KVStep struct {
	Conn    int      `json:"conn"`
	DelayMs int      `json:"delay_ms,omitempty"`
	Args    []string `json:"args"`
}

type KVLane struct {
	Keys     []string `json:"keys"`
	NConns   int      `json:"nconns"`
	Timeout0 bool     `json:"timeout0"` // the connections issue TIMEOUT SET 0 first (SETNX answers at once)
	Steps    []KVStep `json:"steps"`
}

type KVBody struct {
	Lanes []KVLane `json:"lanes"`
}

func genTextKV(prop string, seed uint64, tier string) *Scenario {
	r := ssched.Sub(seed, "gen")
	body := &KVBody{}
	nl := 1 + r.Intn(3)
	uniq := 0
	for li := 0; li < nl; li++ {
		ln := KVLane{NConns: 1 + r.Intn(2), Timeout0: r.Intn(3) > 0}
		nk := 1 + r.Intn(3)
		for k := 0; k < nk; k++ {
			ln.Keys = append(ln.Keys, fmt.Sprintf("kv%d_%d", li, k))
		}
		ns := 12 + r.Intn(50)
		for i := 0; i < ns; i++ {
			key := ln.Keys[r.Intn(len(ln.Keys))]
			uniq++
			val := fmt.Sprintf("v%d", uniq)
			if r.Intn(6) == 0 {
				val = fmt.Sprintf("%d", r.Intn(2000)-500)
			}
			if r.Intn(25) == 0 {
				val = ""
			}
			ttl := strconv.Itoa(1 + r.Intn(4))
			st := KVStep{Conn: r.Intn(ln.NConns)}
			switch x := r.Intn(100); {
			case x < 14:
				st.Args = []string{"SET", key, val}
			case x < 18:
				st.Args = []string{"SET", key, val, "EX", ttl}
			case x < 22:
				st.Args = []string{"SETEX", key, ttl, val}
			case x < 36:
				st.Args = []string{"GET", key}
			case x < 44:
				st.Args = []string{"DEL", key}
			case x < 50:
				st.Args = []string{"SETNX", key, val}
			case x < 56:
				st.Args = []string{"GETSET", key, val}
			case x < 62:
				st.Args = []string{"INCR", key}
			case x < 66:
				st.Args = []string{"INCRBY", key, strconv.Itoa(r.Intn(4000) - 2000)}
			case x < 69:
				st.Args = []string{"DECR", key}
			case x < 72:
				st.Args = []string{"DECRBY", key, strconv.Itoa(r.Intn(4000) - 2000)}
			case x < 78:
				st.Args = []string{"APPEND", key, val}
			case x < 84:
				st.Args = []string{"EXISTS", key}
			case x < 89:
				st.Args = []string{"STRLEN", key}
			case x < 95:
				st.Args = []string{"EXPIRE", key, ttl}
			default:
				st.Args = []string{"PERSIST", key}
			}
			switch r.Intn(6) {
			case 0, 1:
				st.DelayMs = r.Intn(30)
			case 2, 3:
				st.DelayMs = r.Intn(900)
			case 4:
				st.DelayMs = 1000 + r.Intn(5000)
			}
			ln.Steps = append(ln.Steps, st)
		}
		body.Lanes = append(body.Lanes, ln)
	}
	raw, _ := json.Marshal(body)
	sc := &Scenario{Knobs: genKnobs(r), Sched: genSched(r, seed), Body: raw, MaxSimS: 3000}
	sc.Net.FragPermil = []int{0, 300, 900, 900}[r.Intn(4)]
	sc.Net.LatencyUs = []int{0, 0, 200, 5000}[r.Intn(4)]
	sc.Net.JitterUs = []int{0, 100, 3000}[r.Intn(3)]
	return sc
}

type kvEnt struct {
	str        string
	num        int64
	isNum      bool
	ttl        bool
	lo, hi     time.Time // earliest / latest permitted end of the key
	dlo, dhi   time.Time // where the deadline of the key's hold can be
	ttlUnknown bool      // INCR/APPEND on a key with a time-to-live: whether it still has one is not judged
	foreign    bool      // created by SETNX (held under a generated LockId, not under the key's own)
}

func (e *kvEnt) render() string {
	if e.isNum {
		return strconv.FormatInt(e.num, 10)
	}
	return e.str
}

type kvLaneRun struct {
	w     *World
	li    int
	ln    *KVLane
	conns []*textClient
	m     map[string]*kvEnt
	dead  map[string]bool // keys that had a value in this run and were deleted or expired since
	done  bool
}

// contentIs: a reply that carries exactly this string (bulk string, or the integer form the
// server uses for numbers).
func contentIs(v respVal, s string) bool {
	switch v.Kind {
	case '$':
		return v.Str == s
	case ':':
		return strconv.FormatInt(v.Int, 10) == s
	}
	return false
}

func isInt(v respVal, n int64) bool { return v.Kind == ':' && v.Int == n }

func (lr *kvLaneRun) settle(key string) *kvEnt {
	// brings the model entry of a key up to the present: waits out the window in which its expiry
	// may or may not have happened, and drops it afterwards
	w := lr.w
	e := lr.m[key]
	if e == nil || !e.ttl {
		return e
	}
	now := w.now()
	if now.Before(e.lo.Add(-150 * time.Millisecond)) {
		return e
	}
	if d := e.hi.Add(300 * time.Millisecond).Sub(now); d > 0 {
		sleep(d)
	}
	if e.ttlUnknown {
		// not judged: adopt what the server says
		v, ok := lr.conns[0].Do("EXISTS", key)
		if ok && isInt(v, 1) {
			e.ttl, e.ttlUnknown = false, false
			return e
		}
	}
	delete(lr.m, key)
	lr.dead[key] = true
	w.probe("kv_keys_expired")
	return nil
}

func (lr *kvLaneRun) resync(key string) {
	c := lr.conns[0]
	c.Do("DEL", key)
	c.Do("DEL", key)
	delete(lr.m, key)
	lr.dead[key] = true
	lr.w.probe("kv_resyncs")
}

func (lr *kvLaneRun) run() {
	w := lr.w
	defer func() { lr.done = true }()
	for i := 0; i < lr.ln.NConns; i++ {
		c, err := newTextClient(w, nil, w.nodes[1].addr, 100*lr.li+i)
		if err != nil {
			w.harnessErr("kv lane %d dial: %v", lr.li, err)
			return
		}
		lr.conns = append(lr.conns, c)
		if lr.ln.Timeout0 {
			if v, ok := c.Do("TIMEOUT", "SET", "0"); !ok || v.Kind != '+' {
				w.violate("C15", "kv_timeout_set", "TIMEOUT SET 0 answered %s", v)
				return
			}
		}
	}
	for si, st := range lr.ln.Steps {
		if st.DelayMs > 0 {
			sleep(time.Duration(st.DelayMs) * time.Millisecond)
		}
		cmd, key := st.Args[0], st.Args[1]
		e := lr.settle(key)
		if cmd == "SETNX" && !lr.ln.Timeout0 && e != nil && e.ttl {
			cmd, st.Args = "EXISTS", []string{"EXISTS", key} // would wait for the key's end: not a store operation any more
		}
		c := lr.conns[st.Conn%len(lr.conns)]
		t0 := w.now()
		v, ok := c.Do(st.Args...)
		t1 := w.now()
		if !ok {
			w.violate("C15", "kv_connection_lost", "lane %d step %d %v: the connection ended instead of answering (%v)", lr.li, si, st.Args, c.readErr)
			return
		}
		w.probe("kv_commands")
		w.logf("KV lane%d #%d %v -> %s (model %s)", lr.li, si, st.Args, v, kvDesc(e))
		bad := func(want string) {
			class := "kv_" + cmd + "_mismatch"
			switch {
			case e != nil && e.foreign:
				class = "kv_after_setnx_" + cmd
			case e == nil && (cmd == "EXPIRE" || cmd == "PERSIST"):
				class = "kv_" + cmd + "_on_missing_key"
			case e == nil && lr.dead[key] && (cmd == "APPEND" || cmd[0] == 'I' || (cmd[0] == 'D' && cmd != "DEL")):
				// the key was deleted or has expired, but the operation was applied to its old value
				class = "kv_stale_value_" + cmd
			}
			w.violate("C15", class, "lane %d step %d: %v answered %s; a plain key-value store answers %s (key before: %s)", lr.li, si, st.Args, v, want, kvDesc(e))
			lr.resync(key)
		}
		setTTL := func(ne *kvEnt, secs string) {
			n, _ := strconv.Atoi(secs)
			d := time.Duration(n) * time.Second
			var old kvEnt
			if e != nil {
				old = *e
			}
			// dlo..dhi: where the hold's deadline can be; the key ends between dlo and dhi plus the
			// lateness C06 allows (2 s, or 10 s after an update that shortened the deadline)
			ne.ttl, ne.dlo, ne.dhi = true, t0.Add(d), t1.Add(d)
			late := 2500 * time.Millisecond
			if e != nil {
				e := &old
				// the key existed: its hold's terms were updated
				late = 10500 * time.Millisecond
				if e.ttl {
					// C06: an update that moves the deadline by at most one unit may be ignored, so every
					// deadline the hold may have had within a unit (plus rounding) of the new one may
					// still be in force
					const u = 2500 * time.Millisecond
					if klo, khi := maxTime(e.dlo, ne.dlo.Add(-u)), minTime(e.dhi, ne.dhi.Add(u)); !khi.Before(klo) {
						ne.dlo, ne.dhi = minTime(ne.dlo, klo), maxTime(ne.dhi, khi)
					}
				}
			}
			ne.lo, ne.hi = ne.dlo, ne.dhi.Add(late)
			if e != nil && old.ttl && old.hi.After(ne.hi) && !old.dhi.Before(ne.dlo.Add(-2500*time.Millisecond)) {
				ne.hi = old.hi
			}
		}
		switch cmd {
		case "SET", "SETEX":
			val := st.Args[2]
			ttl := ""
			if cmd == "SETEX" {
				ttl, val = st.Args[2], st.Args[3]
			} else if len(st.Args) >= 5 {
				ttl = st.Args[4]
			}
			if !(v.Kind == '+' && v.Str == "OK") {
				bad("+OK")
				continue
			}
			ne := &kvEnt{str: val}
			if ttl != "" {
				setTTL(ne, ttl)
			}
			lr.m[key] = ne
		case "GET":
			if e == nil {
				if v.Kind != 'n' {
					bad("nil")
				}
			} else if !contentIs(v, e.render()) {
				bad(fmt.Sprintf("%q", e.render()))
			}
		case "DEL":
			if e == nil {
				if !isInt(v, 0) {
					bad(":0")
				}
			} else {
				if !isInt(v, 1) {
					bad(":1")
					continue
				}
				delete(lr.m, key)
				lr.dead[key] = true
			}
		case "SETNX":
			if e == nil {
				if !isInt(v, 1) {
					bad(":1")
					continue
				}
				lr.m[key] = &kvEnt{str: st.Args[2], foreign: true}
				w.probe("kv_setnx_created")
			} else if !isInt(v, 0) {
				bad(":0")
			}
		case "GETSET":
			if e == nil {
				if v.Kind != 'n' {
					bad("nil")
					continue
				}
			} else if !contentIs(v, e.render()) {
				bad(fmt.Sprintf("%q", e.render()))
				continue
			}
			lr.m[key] = &kvEnt{str: st.Args[2], foreign: e != nil && e.foreign}
		case "INCR", "INCRBY", "DECR", "DECRBY":
			d := int64(1)
			if len(st.Args) > 2 {
				d, _ = strconv.ParseInt(st.Args[2], 10, 64)
			}
			if cmd[0] == 'D' {
				d = -d
			}
			if e != nil && !e.isNum {
				// mixing types: not judged
				lr.resync(key)
				w.probe("kv_mixed_type_skipped")
				continue
			}
			base := int64(0)
			if e != nil {
				base = e.num
			}
			if !isInt(v, base+d) {
				bad(fmt.Sprintf(":%d", base+d))
				continue
			}
			if e == nil {
				lr.m[key] = &kvEnt{isNum: true, num: base + d}
			} else {
				e.num = base + d
				if e.ttl {
					e.ttlUnknown = true
				}
			}
		case "APPEND":
			if e != nil && e.isNum {
				lr.resync(key)
				w.probe("kv_mixed_type_skipped")
				continue
			}
			old := ""
			if e != nil {
				old = e.str
			}
			if !isInt(v, int64(len(old)+len(st.Args[2]))) {
				bad(fmt.Sprintf(":%d", len(old)+len(st.Args[2])))
				continue
			}
			if e == nil {
				lr.m[key] = &kvEnt{str: st.Args[2]}
			} else {
				e.str = old + st.Args[2]
				if e.ttl {
					e.ttlUnknown = true
				}
			}
		case "EXISTS":
			want := int64(0)
			if e != nil {
				want = 1
			}
			if !isInt(v, want) {
				bad(fmt.Sprintf(":%d", want))
			}
		case "STRLEN":
			want := int64(0)
			if e != nil {
				want = int64(len(e.render()))
			}
			if !isInt(v, want) {
				bad(fmt.Sprintf(":%d", want))
			}
		case "EXPIRE":
			if e == nil {
				if !isInt(v, 0) {
					bad(":0")
				}
				continue
			}
			if !isInt(v, 1) {
				bad(":1")
				continue
			}
			setTTL(e, st.Args[2])
			e.ttlUnknown = false
			w.probe("kv_expire_set")
		case "PERSIST":
			if e == nil {
				if !isInt(v, 0) {
					bad(":0")
				}
				continue
			}
			if e.ttl && !e.ttlUnknown {
				if !isInt(v, 1) {
					bad(":1")
					continue
				}
			} else if !(isInt(v, 0) || isInt(v, 1)) {
				bad(":0 or :1")
				continue
			}
			e.ttl, e.ttlUnknown = false, false
		}
	}
	// leave nothing behind
	for _, k := range lr.ln.Keys {
		lr.conns[0].Do("DEL", k)
		lr.conns[0].Do("DEL", k)
	}
	for _, c := range lr.conns {
		if len(c.extra) > 0 {
			w.violate("C15", "kv_extra_reply", "lane %d: a text connection received %d replies beyond one per command line (first: %s)", lr.li, len(c.extra), c.extra[0])
		}
		c.Close()
	}
}

func kvDesc(e *kvEnt) string {
	if e == nil {
		return "absent"
	}
	s := fmt.Sprintf("%q", e.render())
	if e.isNum {
		s = "number " + s
	}
	if e.ttl {
		s += fmt.Sprintf(" with a time-to-live (ends between %s and %s)", e.lo.Format("04:05.000"), e.hi.Format("04:05.000"))
	}
	if e.foreign {
		s += " (created by SETNX)"
	}
	return s
}

func runTextKV(w *World) {
	body := &KVBody{}
	if err := json.Unmarshal(w.sc.Body, body); err != nil {
		w.harnessErr("bad body: %v", err)
		return
	}
	node := w.boot(1, w.mkcfg(1, "", ""))
	var lanes []*kvLaneRun
	phase := 0
	end := w.S.Loop(func() bool {
		switch phase {
		case 0:
			if node.err != nil {
				w.harnessErr("boot failed: %v", node.err)
				return true
			}
			if node.ready {
				phase = 1
				for li := range body.Lanes {
					lr := &kvLaneRun{w: w, li: li, ln: &body.Lanes[li], m: map[string]*kvEnt{}, dead: map[string]bool{}}
					lanes = append(lanes, lr)
					ssched.SpawnOn(0, fmt.Sprintf("kvlane%d", li), lr.run)
				}
			}
		case 1:
			all := true
			for _, lr := range lanes {
				if !lr.done {
					all = false
				}
			}
			if all && w.S.ReadyLen() == 0 {
				return true
			}
		}
		if len(w.S.Panics) > 0 {
			p := w.S.Panics[0]
			w.violate(w.sc.Prop, "server_crash@"+panicSite(p.Stack), "a server goroutine panicked (the real process would die): %s in task %s", p.Value, p.Task)
			return true
		}
		return w.res.HarnessErr != ""
	}, time.Duration(w.sc.MaxSimS)*time.Second)
	w.res.LoopEnd = end
	if end != "done" && w.res.HarnessErr == "" && len(w.res.Violations) == 0 {
		dumpStacks()
		w.harnessErr("run did not finish: loop ended with %q in phase %d", end, phase)
	}
	w.res.Nontrivial = w.res.Probes["kv_commands"] >= 10
}

func init() {
	kinds["textkv"] = &kindFn{gen: genTextKV, run: runTextKV}
	propKinds["C15"] = append(propKinds["C15"], struct {
		Kind   string
		Weight int
	}{"textkv", 6})
}

func minTime(a, b time.Time) time.Time {
	if a.Before(b) {
		return a
	}
	return b
}

func maxTime(a, b time.Time) time.Time {
	if a.After(b) {
		return a
	}
	return b
}
