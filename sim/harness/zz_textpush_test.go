package server

// Simulation harness: scenario kind "textpush" (C03 on text connections): the text command PUSH sends
// a lock request "without waiting for the result" (README). Whatever becomes of that request, the
// connection's later LOCK and UNLOCK command lines must each get exactly one reply, and that reply
// must be their own: a lock result names the LockId of the request it answers, so a reply naming
// another LockId is the answer to another request.
//
// World: one leader, 1-3 text connections that share 1-3 keys; each connection issues its command
// lines one after the other (that is all a text connection can do). Every request carries a LockId
// of its own. The oracle is identity only (it holds whatever the lock engine decides): PUSH answers
// +OK, LOCK/UNLOCK answer a lock result bearing the LockId sent, each within its timeout plus a
// margin, and nothing else arrives.

import (
	"encoding/hex"
	"encoding/json"
	"fmt"
	"strconv"
	"time"

	"github.com/snower/slock/simrt/ssched"
)

type TPStep struct {
	Cmd      string `json:"cmd"` // PUSH, LOCK, UNLOCK
	Key      int    `json:"key"`
	Lid      int    `json:"lid"` // index of the LockId (UNLOCK: of an earlier LOCK or PUSH of this connection)
	TimeoutS int    `json:"timeout_s"`
	ExpriedS int    `json:"expried_s"`
	Count    int    `json:"count"`
	DelayMs  int    `json:"delay_ms,omitempty"`
}

type TPConn struct {
	Steps []TPStep `json:"steps"`
}

type TPBody struct {
	NKeys int      `json:"nkeys"`
	Conns []TPConn `json:"conns"`
	// ViaFollower (C10): the connections go to a follower, which forwards every command to the leader
	// and relays the leader's reply: the same identity rules hold for what the follower hands back
	ViaFollower bool `json:"via_follower,omitempty"`
}

func genTextPush(prop string, seed uint64, tier string) *Scenario {
	r := ssched.Sub(seed, "gen")
	body := &TPBody{NKeys: 1 + r.Intn(3)}
	nc := 1 + r.Intn(3)
	shared := r.Intn(2) == 0 // semaphores (several holders) or mutexes
	for ci := 0; ci < nc; ci++ {
		var c TPConn
		ns := 8 + r.Intn(30)
		var mine []TPStep // earlier LOCK/PUSH steps of this connection, for UNLOCK
		for i := 0; i < ns; i++ {
			st := TPStep{Key: r.Intn(body.NKeys), Lid: ci*1000 + i + 1, TimeoutS: r.Intn(3), ExpriedS: 1 + r.Intn(4)}
			if shared {
				st.Count = 1 + r.Intn(3)
			}
			switch x := r.Intn(10); {
			case x < 3:
				st.Cmd = "PUSH"
				mine = append(mine, st)
			case x < 7 || len(mine) == 0:
				st.Cmd = "LOCK"
				mine = append(mine, st)
			default:
				o := mine[r.Intn(len(mine))]
				st.Cmd, st.Key, st.Lid = "UNLOCK", o.Key, o.Lid
			}
			switch r.Intn(4) {
			case 0:
				st.DelayMs = r.Intn(40)
			case 1:
				st.DelayMs = r.Intn(1500)
			}
			c.Steps = append(c.Steps, st)
		}
		body.Conns = append(body.Conns, c)
	}
	body.ViaFollower = prop == "C10"
	raw, _ := json.Marshal(body)
	sc := &Scenario{Knobs: genKnobs(r), Sched: genSched(r, seed), Body: raw, MaxSimS: 3000}
	sc.Net.FragPermil = []int{0, 300, 900}[r.Intn(3)]
	sc.Net.LatencyUs = []int{0, 0, 200, 5000}[r.Intn(4)]
	sc.Net.JitterUs = []int{0, 100, 3000}[r.Intn(3)]
	return sc
}

func tpLid(i int) [16]byte {
	var l [16]byte
	l[0], l[1], l[2], l[15] = 'p', byte(i>>8), byte(i), 0x5a
	return l
}

func tpKey(i int) [16]byte {
	var k [16]byte
	k[0], k[1], k[15] = 't', 'p', byte(i+1)
	return k
}

// doWithin sends one command line and waits for its reply, at most d.
func (c *textClient) doWithin(d time.Duration, args ...string) (v respVal, ok bool, timedOut bool) {
	ch := make(chan respVal, 1)
	ssched.NoPreempt(func() { c.rawWait = ch })
	c.sent++
	if _, err := c.conn.Write(respEncode(args)); err != nil {
		return respVal{}, false, false
	}
	tm := time.NewTimer(d)
	defer tm.Stop()
	select {
	case v := <-ch:
		return v, true, false
	case <-c.rdone:
		select {
		case v := <-ch:
			return v, true, false
		default:
		}
		return respVal{}, false, false
	case <-tm.C:
		return respVal{}, false, true
	}
}

type tpConnRun struct {
	w    *World
	ci   int
	spec *TPConn
	done bool
	addr string
	prop string
}

func (cr *tpConnRun) run() {
	w := cr.w
	defer func() { cr.done = true }()
	c, err := newTextClient(w, nil, cr.addr, cr.ci)
	if err != nil {
		w.harnessErr("textpush conn %d dial: %v", cr.ci, err)
		return
	}
	defer c.Close()
	for si, st := range cr.spec.Steps {
		if st.DelayMs > 0 {
			sleep(time.Duration(st.DelayMs) * time.Millisecond)
		}
		k, l := tpKey(st.Key), tpLid(st.Lid)
		args := []string{st.Cmd, hex.EncodeToString(k[:]), "LOCK_ID", hex.EncodeToString(l[:])}
		if st.Cmd != "UNLOCK" {
			args = append(args, "TIMEOUT", strconv.Itoa(st.TimeoutS), "EXPRIED", strconv.Itoa(st.ExpriedS), "COUNT", strconv.Itoa(st.Count+1))
		}
		v, ok, late := c.doWithin(time.Duration(st.TimeoutS+20)*time.Second, args...)
		w.logf("TP c%d #%d %v -> %s ok=%v late=%v", cr.ci, si, args, v, ok, late)
		if late {
			w.violate(cr.prop, "text_command_never_answered", "text connection %d: command line %d (%s of LockId %x, timeout %d s) was not answered within %d s", cr.ci, si, st.Cmd, l[:3], st.TimeoutS, st.TimeoutS+20)
			return
		}
		if !ok {
			w.violate(cr.prop, "text_connection_lost", "text connection %d: command line %d (%s): the connection ended instead of answering (%v)", cr.ci, si, st.Cmd, c.readErr)
			return
		}
		w.probe("tp_commands")
		if st.Cmd == "PUSH" {
			w.probe("tp_pushes")
			if v.Kind != '+' || v.Str != "OK" {
				w.violate(cr.prop, "text_push_reply", "text connection %d: command line %d: PUSH answered %s instead of +OK", cr.ci, si, v)
			}
			continue
		}
		rep := textLockReply(&ReqRec{}, v)
		if rep.TextRaw != "" || rep.Result == 0xEE {
			w.violate(cr.prop, "text_bad_reply", "text connection %d: command line %d (%s) was answered with %s instead of a lock result", cr.ci, si, st.Cmd, v)
			continue
		}
		if rep.LockId != l {
			w.violate(cr.prop, "text_reply_of_another_request", "text connection %d: command line %d (%s of LockId %x) was answered with the result of the request of LockId %x (result %d): the reply belongs to another request", cr.ci, si, st.Cmd, l[:3], rep.LockId[:3], rep.Result)
			continue
		}
		if rep.Result == 0 {
			w.probe("tp_succeeded")
		}
	}
	// the connection must still be in step: a last round trip
	if v, ok, late := c.doWithin(20*time.Second, "PING"); late || !ok || v.Kind != '+' {
		w.violate(cr.prop, "text_connection_out_of_step", "text connection %d: PING after the command lines answered %s (answered: %v, timed out: %v)", cr.ci, v, ok, late)
	}
	sleep(200 * time.Millisecond)
	if len(c.extra) > 0 {
		w.violate(cr.prop, "text_extra_reply", "text connection %d received %d replies beyond one per command line (first: %s)", cr.ci, len(c.extra), c.extra[0])
	}
}

func runTextPush(w *World) {
	body := &TPBody{}
	if err := json.Unmarshal(w.sc.Body, body); err != nil {
		w.harnessErr("bad body: %v", err)
		return
	}
	node := w.boot(1, w.mkcfg(1, "", ""))
	var runs []*tpConnRun
	phase := 0
	target, prop := node, "C03"
	var follower *Node
	if body.ViaFollower {
		prop = "C10"
	}
	end := w.S.Loop(func() bool {
		switch phase {
		case 0:
			if node.err != nil {
				w.harnessErr("boot failed: %v", node.err)
				return true
			}
			if node.ready && body.ViaFollower {
				if follower == nil {
					follower = w.boot(100, w.mkcfg(100, node.addr, ""))
					target = follower
				}
				if follower.err != nil {
					w.harnessErr("follower boot failed: %v", follower.err)
					return true
				}
				if !follower.ready || follower.sl == nil || follower.sl.state != STATE_FOLLOWER {
					return false
				}
				w.probe("tp_via_follower")
			}
			if node.ready {
				phase = 1
				for ci := range body.Conns {
					cr := &tpConnRun{w: w, ci: ci, spec: &body.Conns[ci], addr: target.addr, prop: prop}
					runs = append(runs, cr)
					ssched.SpawnOn(0, fmt.Sprintf("tpconn%d", ci), cr.run)
				}
			}
		case 1:
			all := true
			for _, cr := range runs {
				if !cr.done {
					all = false
				}
			}
			if all && w.S.ReadyLen() == 0 {
				return true
			}
		}
		if len(w.S.Panics) > 0 {
			p := w.S.Panics[0]
			w.violate(w.sc.Prop, "server_crash@"+panicSite(p.Stack), "a server goroutine panicked (the real process would die): %s in task %s", p.Value, p.Task)
			return true
		}
		return w.res.HarnessErr != "" || (phase == 1 && len(w.res.Violations) > 0 && allDone(runs))
	}, time.Duration(w.sc.MaxSimS)*time.Second)
	w.res.LoopEnd = end
	if end != "done" && w.res.HarnessErr == "" && len(w.res.Violations) == 0 {
		dumpStacks()
		w.harnessErr("run did not finish: loop ended with %q in phase %d", end, phase)
	}
	w.res.Nontrivial = w.res.Probes["tp_commands"] >= 5
}

func allDone(runs []*tpConnRun) bool {
	for _, cr := range runs {
		if !cr.done {
			return false
		}
	}
	return true
}

func init() {
	kinds["textpush"] = &kindFn{gen: genTextPush, run: runTextPush}
	propKinds["C03"] = append(propKinds["C03"], struct {
		Kind   string
		Weight int
	}{"textpush", 3})
	propKinds["C10"] = append(propKinds["C10"], struct {
		Kind   string
		Weight int
	}{"textpush", 1})
}
