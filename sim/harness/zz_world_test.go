package server

// Simulation harness, part 1: world, nodes, run entry points.
// This file is copied into package server of an instrumented scratch copy of snower/slock and
// is itself passed through simbuild (so plain go/chan/time/sync here are simulator-controlled).
// Imports whose local name starts with "real" are left untouched by simbuild.

import (
	"encoding/json"
	"fmt"
	realos "os"
	"os/exec"
	"path/filepath"
	realruntime "runtime"
	"sort"
	"strconv"
	"strings"
	realsync "sync"
	"testing"
	"testing/synctest"
	"time"
	realtime "time"

	"github.com/hhkbp2/go-logging"
	"github.com/snower/slock/simrt/scrand"
	"github.com/snower/slock/simrt/snet"
	"github.com/snower/slock/simrt/sos"
	"github.com/snower/slock/simrt/srand"
	"github.com/snower/slock/simrt/ssched"
	"github.com/snower/slock/simrt/stime"
)

// ---------------------------------------------------------------------------------------------
// scenario: everything a run does, as explicit data (this is what a replay file carries)

type Knobs struct {
	DBConcurrent       uint    `json:"db_concurrent"`
	DBFastKeyCount     uint    `json:"db_fast_key_count"`
	DBLockAofTime      uint    `json:"db_lock_aof_time"`
	AofQueueSize       uint    `json:"aof_queue_size"`
	AofFileRewriteSize uint    `json:"aof_file_rewrite_size"`
	AofFileBufferSize  uint    `json:"aof_file_buffer_size"`
	AofRingBufferSize  uint    `json:"aof_ring_buffer_size"`
	AofAckMode         uint    `json:"aof_ack_mode"`
	AofParcent         float64 `json:"aof_parcent"`
}

type SchedCfg struct {
	Seed     uint64 `json:"seed"`
	Strategy string `json:"strategy"`
	Permille int    `json:"permille,omitempty"`
	D        int    `json:"d,omitempty"`
	Horizon  int64  `json:"horizon,omitempty"`
}

type NetCfg struct {
	LatencyUs  int `json:"latency_us,omitempty"`
	JitterUs   int `json:"jitter_us,omitempty"`
	FragPermil int `json:"frag_permil,omitempty"`
	// CoalescePermil: 0 = derived from the scenario seed (0, 500 or 1000); -1 = never coalesce
	CoalescePermil int `json:"coalesce_permil,omitempty"`
	Window         int `json:"window,omitempty"`
}

type Scenario struct {
	Prop    string          `json:"prop"`
	Kind    string          `json:"kind"` // which harness program interprets Body
	Seed    uint64          `json:"seed"`
	Tier    string          `json:"tier"`
	Knobs   Knobs           `json:"knobs"`
	Sched   SchedCfg        `json:"sched"`
	Net     NetCfg          `json:"net"`
	MaxSimS int             `json:"max_sim_s"`
	Body    json.RawMessage `json:"body"`
}

type Violation struct {
	Prop   string `json:"prop"`
	Class  string `json:"class"`
	Detail string `json:"detail"`
	SimT   string `json:"sim_t"`
	Step   uint64 `json:"step"`
}

type Result struct {
	Prop       string         `json:"prop"`
	Kind       string         `json:"kind"`
	Seed       uint64         `json:"seed"`
	Outcome    string         `json:"outcome"` // ok | violation | harness_error
	Violations []Violation    `json:"violations,omitempty"`
	Cross      []Violation    `json:"cross,omitempty"` // failures of other properties' always-on invariants
	Known      []Violation    `json:"known,omitempty"` // violations matching an open known finding (the run goes on)
	HarnessErr string         `json:"harness_error,omitempty"`
	Hash       string         `json:"hash"`
	Steps      uint64         `json:"steps"`
	Switches   uint64         `json:"switches"`
	Points     uint64         `json:"points"`
	SimSeconds float64        `json:"sim_s"`
	WallMs     float64        `json:"wall_ms"`
	Probes     map[string]int `json:"probes,omitempty"`
	Faults     map[string]int `json:"faults,omitempty"`
	Nontrivial bool           `json:"nontrivial"`
	StateSig   string         `json:"state_sig,omitempty"`
	Rogue      int            `json:"rogue,omitempty"`
	LoopEnd    string         `json:"loop_end,omitempty"`
	Sample     any            `json:"sample,omitempty"`
}

// ---------------------------------------------------------------------------------------------
// world

type Node struct {
	id    int
	cfg   *ServerConfig
	sl    *SLock
	srv   *Server
	dsp   *DefaultServerProtocol
	addr  string
	dir   string
	up    bool
	ready bool
	err   error
	inc   int // incarnation
}

type World struct {
	t        *testing.T
	sc       *Scenario
	S        *ssched.Sched
	root     string
	nodes    map[int]*Node
	res      *Result
	logLines []string
	keepLog  bool
	start    time.Time
	logger   logging.Logger
	onStep   []func()
	stopped  bool
}

var W *World

// knownClasses: "prop:class" pairs of open known findings (from SIM_KNOWN); such violations are
// recorded but do not end the run, so that the rest of the run is still checked.
var knownClasses = func() map[string]bool {
	m := map[string]bool{}
	for _, k := range strings.Split(realos.Getenv("SIM_KNOWN"), ",") {
		if k != "" {
			m[k] = true
		}
	}
	return m
}()

func (w *World) now() time.Time    { return realtime.Now() }
func (w *World) simT() string      { return fmt.Sprintf("%.3f", realtime.Since(w.start).Seconds()) }
func (w *World) probe(name string) { w.res.Probes[name]++ }
func (w *World) fault(name string) { w.res.Faults[name]++ }

func (w *World) logf(format string, a ...any) {
	line := fmt.Sprintf(format, a...)
	w.S.Trace(line)
}

func (w *World) violate(prop, class, format string, a ...any) {
	v := Violation{Prop: prop, Class: class, Detail: fmt.Sprintf(format, a...), SimT: w.simT(), Step: w.S.Steps}
	w.S.Trace("VIOLATION " + prop + " " + class + " " + v.Detail)
	if knownClasses[prop+":"+class] {
		if len(w.res.Known) < 50 {
			w.res.Known = append(w.res.Known, v)
		}
		return
	}
	if prop == w.sc.Prop {
		if len(w.res.Violations) < 20 {
			w.res.Violations = append(w.res.Violations, v)
		}
	} else if len(w.res.Cross) < 20 {
		w.res.Cross = append(w.res.Cross, v)
	}
}

func (w *World) harnessErr(format string, a ...any) {
	if w.res.HarnessErr == "" {
		w.res.HarnessErr = fmt.Sprintf(format, a...)
	}
}

type simLogHandler struct{ w *World }

func defaultKnobs() Knobs {
	return Knobs{DBConcurrent: 2, DBFastKeyCount: 16, DBLockAofTime: 1, AofQueueSize: 4096, AofFileRewriteSize: 1 << 20,
		AofFileBufferSize: 4096, AofRingBufferSize: 4096, AofParcent: 0.3}
}

func (w *World) mkcfg(id int, slaveof, replset string) *ServerConfig {
	k := w.sc.Knobs
	dir := filepath.Join(w.root, fmt.Sprintf("n%d", id))
	_ = realos.MkdirAll(dir, 0755)
	return &ServerConfig{DataDir: dir, DBFastKeyCount: k.DBFastKeyCount, DBConcurrent: k.DBConcurrent, DBLockAofTime: k.DBLockAofTime,
		DBLockAofParcentTime: k.AofParcent, Bind: "127.0.0.1", Port: uint(5000 + id), AofQueueSize: k.AofQueueSize,
		AofFileRewriteSize: k.AofFileRewriteSize, AofFileBufferSize: k.AofFileBufferSize, AofRingBufferSize: k.AofRingBufferSize,
		AofRingBufferMaxSize: 1 << 22, AofAckMode: k.AofAckMode, SlaveOf: slaveof, ReplSet: replset, Log: "-", LogLevel: "ERROR"}
}

// boot starts a node exactly as main.go does: NewSLock, NewServer, Init, Listen, Serve.
func (w *World) boot(id int, cfg *ServerConfig) *Node {
	n := w.nodes[id]
	if n == nil {
		n = &Node{id: id}
		w.nodes[id] = n
	}
	n.cfg, n.addr, n.dir = cfg, fmt.Sprintf("127.0.0.1:%d", cfg.Port), cfg.DataDir
	n.up, n.ready, n.err, n.sl, n.srv, n.dsp = true, false, nil, nil, nil, nil
	n.inc++
	inc := n.inc
	ssched.SpawnOn(id, fmt.Sprintf("n%d.%d.boot", id, inc), func() {
		sl := NewSLock(cfg, w.logger)
		n.dsp = defaultServerProtocol
		srv := NewServer(sl)
		n.sl, n.srv = sl, srv
		if err := sl.Init(srv); err != nil {
			n.err = err
			w.logf("BOOT n%d init error: %v", id, err)
			return
		}
		if err := srv.Listen(); err != nil {
			n.err = err
			w.logf("BOOT n%d listen error: %v", id, err)
			return
		}
		n.ready = true
		w.logf("BOOT n%d.%d ready state=%d", id, inc, sl.state)
		srv.Serve()
	})
	return n
}

// kill models kill -9: tasks stop at their next instruction boundary the simulator controls,
// connections reset, files closed.
func (w *World) kill(id int) {
	n := w.nodes[id]
	if n == nil || !n.up {
		return
	}
	n.up, n.ready = false, false
	w.S.Kill(id)
	snet.N.KillNode(id)
	sos.D.KillNode(id)
	w.logf("KILL n%d", id)
}

func (w *World) installGlobals() {
	w.S.OnDispatch = append(w.S.OnDispatch, func(tk *ssched.Task) {
		if n, ok := w.nodes[tk.Node]; ok && n.cfg != nil {
			Config = n.cfg
			if n.dsp != nil {
				defaultServerProtocol = n.dsp
			}
		}
	})
}

// dumpStacks prints every goroutine's stack when SIM_STACKS is set (debugging a stuck run).
func dumpStacks() {
	if realos.Getenv("SIM_STACKS") == "" {
		return
	}
	buf := make([]byte, 4<<20)
	n := realruntime.Stack(buf, true)
	fmt.Println(string(buf[:n]))
}

// simLogger copies the server's own log lines into the trace (debugging only: SIM_SUTLOG=1).
type simLogger struct {
	logging.Logger
	w *World
}

func (l *simLogger) line(lv, f string, a ...interface{}) {
	l.w.logf("LOG n%d %s "+f, append([]interface{}{ssched.CurrentNode(), lv}, a...)...)
}
func (l *simLogger) Infof(f string, a ...interface{})  { l.line("I", f, a...) }
func (l *simLogger) Warnf(f string, a ...interface{})  { l.line("W", f, a...) }
func (l *simLogger) Errorf(f string, a ...interface{}) { l.line("E", f, a...) }

// sleep is a harness-task sleep on the simulated clock.
func sleep(d time.Duration) { time.Sleep(d) }

// ---------------------------------------------------------------------------------------------
// run entry

type kindFn struct {
	gen func(prop string, seed uint64, tier string) *Scenario
	run func(w *World)
}

var kinds = map[string]*kindFn{}

// propKinds maps a property to the scenario kinds its check runs, with weights.
var propKinds = map[string][]struct {
	Kind   string
	Weight int
}{}

func pickKind(prop string, seed uint64) string {
	ks := propKinds[prop]
	if len(ks) == 0 {
		return ""
	}
	tot := 0
	for _, k := range ks {
		tot += k.Weight
	}
	r := ssched.Sub(seed, "kind").Intn(tot)
	for _, k := range ks {
		if r < k.Weight {
			return k.Kind
		}
		r -= k.Weight
	}
	return ks[0].Kind
}

func genScenario(prop string, seed uint64, tier string) (*Scenario, error) {
	kind := realos.Getenv("SIM_KIND")
	if kind == "" {
		kind = pickKind(prop, seed)
	}
	k := kinds[kind]
	if k == nil {
		return nil, fmt.Errorf("no scenario kind %q for property %s", kind, prop)
	}
	sc := k.gen(prop, seed, tier)
	sc.Prop, sc.Kind, sc.Seed, sc.Tier = prop, kind, seed, tier
	return sc, nil
}

func runScenario(t *testing.T, sc *Scenario) *Result {
	res := &Result{Prop: sc.Prop, Kind: sc.Kind, Seed: sc.Seed, Probes: map[string]int{}, Faults: map[string]int{}}
	k := kinds[sc.Kind]
	if k == nil {
		res.Outcome, res.HarnessErr = "harness_error", "unknown kind "+sc.Kind
		return res
	}
	wall := realtime.Now()
	// the directory name shows up in replies of the code under test (INFO): it has the same length
	// in every run of a seed, so that reply sizes (and with them read fragmentation) do not vary
	name := fmt.Sprintf("slocksim-%020d-%08d", sc.Seed, realos.Getpid())
	root := filepath.Join("/dev/shm", name)
	err := realos.Mkdir(root, 0755)
	if err != nil {
		root = filepath.Join(realos.TempDir(), name)
		_ = realos.RemoveAll(root)
		err = realos.Mkdir(root, 0755)
	}
	if err != nil {
		res.Outcome, res.HarnessErr = "harness_error", err.Error()
		return res
	}
	defer realos.RemoveAll(root)
	var w *World
	func() {
		defer func() {
			if r := recover(); r != nil {
				msg := fmt.Sprint(r)
				if !strings.Contains(msg, "blocked goroutines remain") && !strings.Contains(msg, "deadlock: main bubble goroutine has exited") {
					res.HarnessErr = "panic outside tasks: " + msg
					if realos.Getenv("SIM_STACKS") != "" {
						buf := make([]byte, 1<<20)
						n := realruntime.Stack(buf, true)
						fmt.Println(string(buf[:n]))
					}
				}
			}
		}()
		synctest.Test(t, func(t *testing.T) {
			s := ssched.New(ssched.Config{Seed: sc.Sched.Seed, Strategy: sc.Sched.Strategy, Permille: sc.Sched.Permille, D: sc.Sched.D,
				Horizon: sc.Sched.Horizon, MaxSteps: 20_000_000, TraceAll: realos.Getenv("SIM_TRACEALL") != ""})
			srand.Reset(sc.Seed)
			scrand.Reset(sc.Seed)
			stime.Reset()
			nt := snet.Reset(sc.Seed)
			nt.MinLatency = time.Duration(sc.Net.LatencyUs) * time.Microsecond
			nt.Jitter = time.Duration(sc.Net.JitterUs) * time.Microsecond
			nt.FragPermil = sc.Net.FragPermil
			switch {
			case sc.Net.CoalescePermil > 0:
				nt.CoalescePermil = sc.Net.CoalescePermil
			case sc.Net.CoalescePermil == 0:
				nt.CoalescePermil = []int{0, 500, 1000, 1000}[ssched.Sub(sc.Seed, "coalesce").Intn(4)]
			}
			nt.Window = sc.Net.Window
			sos.Reset()
			resetGlobals()
			w = &World{t: t, sc: sc, S: s, root: root, nodes: map[int]*Node{}, res: res, start: realtime.Now()}
			W = w
			if p := realos.Getenv("SIM_DUMP"); p != "" {
				w.keepLog = true
				s.LogSink = func(l string) {
					w.logLines = append(w.logLines, fmt.Sprintf("[%s #%d] %s", w.simT(), s.Steps, l))
				}
			}
			lg := logging.GetLogger("sim")
			lg.SetLevel(logging.LevelCritical)
			w.logger = lg
			if w.keepLog && realos.Getenv("SIM_SUTLOG") != "" {
				w.logger = &simLogger{Logger: lg, w: w}
			}
			w.installGlobals()
			s.Trace(fmt.Sprintf("SEED %d prop=%s kind=%s", sc.Seed, sc.Prop, sc.Kind))
			k.run(w)
			res.SimSeconds = realtime.Since(w.start).Seconds()
			sos.D.CloseAll()
		})
	}()
	if w != nil {
		res.Hash, res.Steps, res.Switches, res.Points, res.Rogue = w.S.Hash(), w.S.Steps, w.S.Switches, w.S.Points, w.S.Rogue
		for _, p := range w.S.Panics {
			// a panic in a task of a live node is the simulator's equivalent of the process dying
			res.Probes["task_panics"]++
			_ = p
		}
		if p := realos.Getenv("SIM_DUMP"); p != "" {
			if strings.HasSuffix(p, "/") {
				p = fmt.Sprintf("%s%d-%d.log", p, sc.Seed, realos.Getpid())
			}
			f, err := realos.Create(p)
			if err == nil {
				for _, l := range w.logLines {
					fmt.Fprintln(f, l)
				}
				for _, p := range w.S.Panics {
					fmt.Fprintf(f, "PANIC %s node=%d: %s\n%s\n", p.Task, p.Node, p.Value, p.Stack)
				}
				f.Close()
			}
		}
	}
	res.WallMs = float64(realtime.Since(wall).Microseconds()) / 1000
	switch {
	case res.HarnessErr != "":
		res.Outcome = "harness_error"
	case len(res.Violations) > 0:
		res.Outcome = "violation"
	default:
		res.Outcome = "ok"
	}
	return res
}

// resetGlobals puts the process-wide counters of the packages under test back to their
// initial values, so that a run does not depend on which run preceded it in the process.
func resetGlobals() {
	serverProtocolSessionIdIndex = 0
	clientId = 0
	subscriberIdIndex = 0
	Config = nil
	defaultServerProtocol = nil
}

// panicSite extracts the innermost function of the code under test from a panic stack.
func panicSite(stack string) string {
	lines := strings.Split(stack, "\n")
	for _, l := range lines {
		if strings.HasPrefix(l, "github.com/snower/slock/") && !strings.Contains(l, "/simrt/") {
			f := strings.TrimPrefix(l, "github.com/snower/slock/")
			if i := strings.LastIndex(f, "("); i > 0 {
				f = f[:i]
			}
			return f
		}
	}
	return "unknown"
}

func envUint(name string, def uint64) uint64 {
	v := realos.Getenv(name)
	if v == "" {
		return def
	}
	n, err := strconv.ParseUint(v, 10, 64)
	if err != nil {
		return def
	}
	return n
}

// TestSimOne runs one scenario: from SIM_SCENARIO (a replay/scenario file) or generated from
// SIM_PROP + VERIF_SEED + SIM_TIER. It prints one line "SIMRESULT <json>".
func TestSimOne(t *testing.T) {
	var sc *Scenario
	if p := realos.Getenv("SIM_SCENARIO"); p != "" {
		data, err := realos.ReadFile(p)
		if err != nil {
			fmt.Printf("SIMRESULT %s\n", mustJSON(&Result{Outcome: "harness_error", HarnessErr: err.Error()}))
			return
		}
		var rf struct {
			Scenario *Scenario `json:"scenario"`
		}
		if err := json.Unmarshal(data, &rf); err != nil || rf.Scenario == nil {
			sc = &Scenario{}
			if err2 := json.Unmarshal(data, sc); err2 != nil || sc.Kind == "" {
				fmt.Printf("SIMRESULT %s\n", mustJSON(&Result{Outcome: "harness_error", HarnessErr: fmt.Sprintf("bad scenario file: %v %v", err, err2)}))
				return
			}
		} else {
			sc = rf.Scenario
		}
	} else {
		prop := realos.Getenv("SIM_PROP")
		seed := envUint("VERIF_SEED", 1)
		tier := realos.Getenv("SIM_TIER")
		if tier == "" {
			tier = "quick"
		}
		var err error
		sc, err = genScenario(prop, seed, tier)
		if err != nil {
			fmt.Printf("SIMRESULT %s\n", mustJSON(&Result{Prop: prop, Seed: seed, Outcome: "harness_error", HarnessErr: err.Error()}))
			return
		}
	}
	if p := realos.Getenv("SIM_EMIT_SCENARIO"); p != "" {
		_ = realos.WriteFile(p, []byte(mustJSON(sc)), 0644)
	}
	res := runScenario(t, sc)
	fmt.Printf("SIMRESULT %s\n", mustJSON(res))
}

func mustJSON(v any) string {
	b, err := json.Marshal(v)
	if err != nil {
		return fmt.Sprintf(`{"outcome":"harness_error","harness_error":%q}`, err.Error())
	}
	return string(b)
}

// TestSimBatch fans seeds out to one OS process per run (SIM_SEEDS=first:count, SIM_JOBS=n).
// Each child prints its SIMRESULT line, which is forwarded; a child that dies or exceeds the
// wall-clock watchdog is reported as harness_error (never as a violation).
func TestSimBatch(t *testing.T) {
	spec := realos.Getenv("SIM_SEEDS")
	parts := strings.Split(spec, ":")
	if len(parts) != 2 {
		t.Fatalf("SIM_SEEDS=first:count expected")
	}
	first, _ := strconv.ParseUint(parts[0], 10, 64)
	count, _ := strconv.ParseUint(parts[1], 10, 64)
	jobs := int(envUint("SIM_JOBS", 16))
	budget := time.Duration(envUint("SIM_BUDGET_S", 0)) * realtime.Second
	watchdog := time.Duration(envUint("SIM_WATCHDOG_S", 120)) * realtime.Second
	startWall := realtime.Now()
	var mu realsync.Mutex
	var wg realsync.WaitGroup
	next := first
	exe, _ := realos.Executable()
	worker := func() {
		defer wg.Done()
		for {
			mu.Lock()
			if next >= first+count || (budget > 0 && realtime.Since(startWall) > budget) {
				mu.Unlock()
				return
			}
			seed := next
			next++
			mu.Unlock()
			cmd := exec.Command(exe, "-test.run", "^TestSimOne$", "-test.timeout", "0")
			cmd.Env = append(realos.Environ(), "VERIF_SEED="+strconv.FormatUint(seed, 10))
			done := make(chan struct{})
			var out []byte
			var err error
			go func() { out, err = cmd.CombinedOutput(); close(done) }()
			timer := realtime.NewTimer(watchdog)
			select {
			case <-done:
				timer.Stop()
			case <-timer.C:
				if cmd.Process != nil {
					_ = cmd.Process.Kill()
				}
				<-done
				err = fmt.Errorf("watchdog: run exceeded %v wall", watchdog)
			}
			line := ""
			for _, l := range strings.Split(string(out), "\n") {
				if strings.HasPrefix(l, "SIMRESULT ") {
					line = l
				}
			}
			if line == "" && strings.Contains(string(out), "fatal error: ") && strings.Contains(string(out), "github.com/snower/slock/server.") {
				// the Go runtime killed the worker (stack overflow, concurrent map access ...) inside
				// code under test: the real server process would have died the same way
				reason := "fatal"
				if i := strings.Index(string(out), "fatal error: "); i >= 0 {
					reason = strings.TrimSpace(strings.SplitN(string(out)[i+13:], "\n", 2)[0])
				}
				cls := "child_died_" + strings.ReplaceAll(reason, " ", "_")
				prop := realos.Getenv("SIM_PROP")
				line = "SIMRESULT " + mustJSON(&Result{Prop: prop, Seed: seed, Outcome: "violation", Hash: "fatal:" + cls,
					Violations: []Violation{{Prop: prop, Class: cls, Detail: "the simulation worker was killed by the Go runtime inside the code under test: fatal error: " + reason + " (the real server process dies the same way)"}}})
			}
			if line == "" {
				tail := string(out)
				if len(tail) > 2000 {
					tail = tail[len(tail)-2000:]
				}
				line = "SIMRESULT " + mustJSON(&Result{Prop: realos.Getenv("SIM_PROP"), Seed: seed, Outcome: "harness_error",
					HarnessErr: fmt.Sprintf("no result from child (%v): %s", err, tail)})
			}
			mu.Lock()
			fmt.Println(line)
			mu.Unlock()
		}
	}
	for i := 0; i < jobs; i++ {
		wg.Add(1)
		go worker()
	}
	wg.Wait()
}

var _ = sort.Strings
