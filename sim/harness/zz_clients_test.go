package server

// Simulation harness, part 2: clients (in-memory, binary wire, text wire) and the L1 history.

import (
	"bytes"
	"fmt"
	"io"
	"time"

	"github.com/snower/slock/protocol"
	"github.com/snower/slock/simrt/snet"
	"github.com/snower/slock/simrt/ssched"
)

// OpSpec is one LOCK/UNLOCK request, fully explicit.
type OpSpec struct {
	DelayMs int       `json:"delay_ms,omitempty"`
	Cmd     uint8     `json:"cmd"` // 1 lock, 2 unlock
	Db      uint8     `json:"db,omitempty"`
	Key     int       `json:"key"`
	Lid     int       `json:"lid"`
	Flag    uint8     `json:"flag,omitempty"`
	Timeout uint16    `json:"timeout,omitempty"`
	TFlag   uint16    `json:"tflag,omitempty"`
	Expried uint16    `json:"expried,omitempty"`
	EFlag   uint16    `json:"eflag,omitempty"`
	Count   uint16    `json:"count,omitempty"`
	Rcount  uint8     `json:"rcount,omitempty"`
	Data    *DataSpec `json:"data,omitempty"`
	Wait    bool      `json:"wait,omitempty"` // wait for the terminal reply before the next op of this client
}

// DataSpec is a value operation carried by a request.
type DataSpec struct {
	Op    string     `json:"op"` // set unset incr append shift push pop pipeline
	Val   []byte     `json:"val,omitempty"`
	Num   int64      `json:"num,omitempty"`
	Prop  []byte     `json:"prop,omitempty"` // optional property (code 1) value
	Pipe  []DataSpec `json:"pipe,omitempty"`
	Array bool       `json:"array,omitempty"`
	// Short (incr): the operand is sent as this many bytes (little-endian, cut or zero-padded) instead of 8
	Short int `json:"short,omitempty"`
	// FirstLast: the frame carries the data flag 0x20 (see firstOrLast)
	FirstLast bool `json:"first_last,omitempty"`
}

func keyBytes(k int) [16]byte {
	var b [16]byte
	b[0], b[1], b[15] = 'k', byte(k), byte(k>>8)
	return b
}
func lidBytes(l int) [16]byte {
	var b [16]byte
	b[0], b[1], b[2] = 0xA0, byte(l), byte(l>>8)
	return b
}
func lidIndex(b [16]byte) int {
	if b[0] != 0xA0 {
		return -1
	}
	return int(b[1]) | int(b[2])<<8
}
func keyIndex(b [16]byte) int {
	if b[0] != 'k' {
		return -1
	}
	return int(b[1]) | int(b[15])<<8
}
func reqId(client, idx int) [16]byte {
	var b [16]byte
	b[0] = 'R'
	b[1], b[2] = byte(client), byte(client>>8)
	b[3], b[4], b[5], b[6] = byte(idx), byte(idx>>8), byte(idx>>16), byte(idx>>24)
	b[15] = 0x5a
	return b
}
func reqClient(b [16]byte) int {
	if b[0] != 'R' || b[15] != 0x5a {
		return -1
	}
	return int(b[1]) | int(b[2])<<8
}

func (d *DataSpec) build() *protocol.LockCommandData {
	cd := d.build0()
	if cd != nil && d.FirstLast && len(cd.Data) >= 6 {
		cd.Data[5] |= protocol.LOCK_DATA_FLAG_PROCESS_FIRST_OR_LAST
		cd.DataFlag |= protocol.LOCK_DATA_FLAG_PROCESS_FIRST_OR_LAST
	}
	return cd
}

func (d *DataSpec) build0() *protocol.LockCommandData {
	if d == nil {
		return nil
	}
	var props []*protocol.LockCommandDataProperty
	if d.Prop != nil {
		props = []*protocol.LockCommandDataProperty{protocol.NewLockCommandDataProperty(protocol.LOCK_DATA_PROPERTY_CODE_KEY, d.Prop)}
	}
	switch d.Op {
	case "set":
		if d.Array {
			return protocol.NewLockCommandDataSetArray([][]byte{d.Val})
		}
		if props != nil {
			return protocol.NewLockCommandDataSetDataWithProperty(d.Val, props)
		}
		return protocol.NewLockCommandDataSetData(d.Val)
	case "unset":
		return protocol.NewLockCommandDataUnsetData()
	case "incr":
		if d.Short > 0 {
			var cd *protocol.LockCommandData
			if props != nil {
				cd = protocol.NewLockCommandDataIncrDataWithProperty(d.Num, props)
			} else {
				cd = protocol.NewLockCommandDataIncrData(d.Num)
			}
			// the frame ends with the 8 operand bytes: cut or pad them, then set the length prefix anew
			frame := append([]byte(nil), cd.Data[:len(cd.Data)-8]...)
			for i := 0; i < d.Short; i++ {
				if i < 8 {
					frame = append(frame, byte(uint64(d.Num)>>(8*uint(i))))
				} else {
					frame = append(frame, 0)
				}
			}
			n := len(frame) - 4
			frame[0], frame[1], frame[2], frame[3] = byte(n), byte(n>>8), byte(n>>16), byte(n>>24)
			return protocol.NewLockCommandDataFromOriginBytes(frame)
		}
		if props != nil {
			return protocol.NewLockCommandDataIncrDataWithProperty(d.Num, props)
		}
		return protocol.NewLockCommandDataIncrData(d.Num)
	case "append":
		if props != nil {
			return protocol.NewLockCommandDataAppendDataWithProperty(d.Val, props)
		}
		return protocol.NewLockCommandDataAppendData(d.Val)
	case "shift":
		return protocol.NewLockCommandDataShiftData(uint32(d.Num))
	case "push":
		if props != nil {
			return protocol.NewLockCommandDataPushDataWithProperty(d.Val, props)
		}
		return protocol.NewLockCommandDataPushData(d.Val)
	case "pop":
		return protocol.NewLockCommandDataPopData(uint32(d.Num))
	case "pipeline":
		var ds []*protocol.LockCommandData
		for i := range d.Pipe {
			ds = append(ds, d.Pipe[i].build())
		}
		return protocol.NewLockCommandDataPipelineData(ds)
	}
	return nil
}

func (o *OpSpec) fill(cmd *protocol.LockCommand, rid [16]byte) {
	cmd.Magic, cmd.Version = protocol.MAGIC, protocol.VERSION
	cmd.CommandType = o.Cmd
	cmd.RequestId = rid
	cmd.Flag, cmd.DbId = o.Flag, o.Db
	cmd.LockKey, cmd.LockId = keyBytes(o.Key), lidBytes(o.Lid)
	cmd.Timeout, cmd.TimeoutFlag, cmd.Expried, cmd.ExpriedFlag = o.Timeout, o.TFlag, o.Expried, o.EFlag
	cmd.Count, cmd.Rcount = o.Count, o.Rcount
	cmd.Data = nil
	if o.Data != nil {
		cmd.Flag |= protocol.LOCK_FLAG_CONTAINS_DATA
		cmd.Data = o.Data.build()
	}
}

// ---------------------------------------------------------------------------------------------
// L1 history

type Reply struct {
	Result  uint8
	CmdType uint8
	LCount  uint16
	LRCount uint8
	LockId  [16]byte
	Data    []byte
	HasData bool
	T       time.Time
	Step    uint64
	Ev      uint64
	Conn    int // client that received it
	// for stray replies:
	StrayRid [16]byte
	Recycled bool
	// text connections: the reply was a RESP value (no RequestId on the wire)
	Text    bool
	TextVal *respVal // DATA item of a lock reply
	TextRaw string   // a reply that is not a lock result (error line ...)
	// maybeOf: when this reply arrived, an earlier request of the same connection was in the window of
	// finding F8 (granted, its hold already ended by somebody else, its SUCCED reply not yet built) and
	// the request this reply names was sent after that: the reply may be that request's, built from the
	// recycled command object
	maybeOf *ReqRec
}

type ReqRec struct {
	Id      [16]byte
	Client  int
	Idx     int
	Op      OpSpec
	InvEv   uint64
	InvStep uint64
	InvT    time.Time
	Sent    bool
	Replies []Reply
	done    chan struct{}
	lost    bool // the connection died before a terminal reply could arrive
	excused bool // its reply was delivered under a foreign RequestId (finding F8)
	closed  bool // done has been closed
}

func (r *ReqRec) finish() {
	if !r.closed {
		r.closed = true
		close(r.done)
	}
}

func (d *DataSpec) String() string {
	if d == nil {
		return ""
	}
	s := " data=" + d.Op
	switch d.Op {
	case "set", "append", "push":
		s += fmt.Sprintf("(%q)", d.Val)
	case "incr", "shift", "pop":
		s += fmt.Sprintf("(%d)", d.Num)
	case "pipeline":
		s += "["
		for i := range d.Pipe {
			s += d.Pipe[i].String()
		}
		s += "]"
	}
	if d.Prop != nil {
		s += "+prop"
	}
	if d.Array {
		s += "+array"
	}
	return s
}

func (r *ReqRec) String() string {
	return fmt.Sprintf("c%d#%d{cmd=%d db=%d key=%d lid=%d flag=%#x to=%d/%#x ex=%d/%#x cnt=%d rc=%d%s}", r.Client, r.Idx, r.Op.Cmd, r.Op.Db, r.Op.Key, r.Op.Lid,
		r.Op.Flag, r.Op.Timeout, r.Op.TFlag, r.Op.Expried, r.Op.EFlag, r.Op.Count, r.Op.Rcount, r.Op.Data.String())
}

type History struct {
	w       *World
	ev      uint64
	reqs    map[[16]byte]*ReqRec
	order   []*ReqRec
	stray   []Reply // replies delivered to a connection that did not send their RequestId
	onReply []func(r *ReqRec, rep *Reply)
	onInv   []func(r *ReqRec)
	// atRisk, if set, reports a request of this client whose granted hold was already ended by
	// somebody else before its SUCCED reply was produced (finding F8: the reply is then built
	// from a command object that may have been recycled).
	atRisk func(conn int) *ReqRec
}

// attributeRecycled: the first reply delivered under r's id was not r's own (the monitor found that it
// is not a permitted answer to r) while rep.maybeOf was in the F8 window: it is booked as that
// request's reply, built from the recycled command object; r's own reply is still to come.
func (h *History) attributeRecycled(r *ReqRec, rep *Reply) bool {
	g := rep.maybeOf
	if g == nil || g.excused || len(g.Replies) > 0 {
		return false
	}
	for i := range r.Replies {
		if r.Replies[i].Ev == rep.Ev {
			st := r.Replies[i]
			st.StrayRid, st.Recycled, st.maybeOf = r.Id, true, nil
			r.Replies = append(r.Replies[:i], r.Replies[i+1:]...)
			g.excused = true
			g.finish()
			h.stray = append(h.stray, st)
			h.w.probe("reply_from_recycled_command")
			h.w.logf("R reattributed: the reply under the id of c%d#%d (result %d) is the reply of c%d#%d, built from the recycled command object", r.Client, r.Idx, st.Result, g.Client, g.Idx)
			return true
		}
	}
	return false
}

func newHistory(w *World) *History { return &History{w: w, reqs: map[[16]byte]*ReqRec{}} }

func (h *History) nextEv() uint64 { h.ev++; return h.ev }

func (h *History) invoke(client, idx int, op OpSpec) *ReqRec {
	r := &ReqRec{Id: reqId(client, idx), Client: client, Idx: idx, Op: op, done: make(chan struct{})}
	if op.Data != nil {
		if op.Data.FirstLast {
			h.w.probe("value_ops_with_first_or_last_flag")
		}
		if op.Data.Short > 0 {
			h.w.probe("incr_operands_not_8_bytes")
		}
	}
	ssched.NoPreempt(func() {
		r.InvEv, r.InvStep, r.InvT = h.nextEv(), h.w.S.Steps, h.w.now()
		h.reqs[r.Id] = r
		h.order = append(h.order, r)
		h.w.logf("I %s t=%s", r.String(), h.w.simT())
		for _, f := range h.onInv {
			f(r)
		}
	})
	return r
}

func (h *History) reply(conn int, rid [16]byte, rep Reply) {
	ssched.NoPreempt(func() {
		rep.T, rep.Step, rep.Ev, rep.Conn = h.w.now(), h.w.S.Steps, h.nextEv(), conn
		r := h.reqs[rid]
		if r == nil || r.Client != conn {
			rep.StrayRid = rid
			if h.atRisk != nil {
				if g := h.atRisk(conn); g != nil {
					rep.Recycled = true
					if !g.excused && len(g.Replies) == 0 {
						g.finish() // its reply went out under a foreign RequestId: the client must not wait for it
					}
					g.excused = true
					h.w.probe("reply_from_recycled_command")
				}
			}
			h.stray = append(h.stray, rep)
			h.w.logf("R stray conn=%d rid=%x res=%d recycled=%v", conn, rid, rep.Result, rep.Recycled)
			return
		}
		if len(r.Replies) > 0 && h.atRisk != nil {
			first := r.Replies[0]
			granted := r.Op.Cmd == protocol.COMMAND_LOCK && (first.Result == protocol.RESULT_SUCCED || (first.Result == protocol.RESULT_LOCKED_ERROR && r.Op.Flag&protocol.LOCK_FLAG_UPDATE_WHEN_LOCKED != 0))
			legitSecond := len(r.Replies) == 1 && granted && rep.Result == protocol.RESULT_EXPRIED
			if !legitSecond {
				// finding F8 with the recycled command object re-used by the same connection: the
				// reply of an at-risk request of this connection arrives under this request's id
				if g := h.atRisk(conn); g != nil && g != r && r.Replies[0].maybeOf != nil {
					// which of the two replies is r's own is for the monitor to say
					rep.maybeOf = g
				} else if g != nil && g != r {
					rep.StrayRid, rep.Recycled = rid, true
					if !g.excused && len(g.Replies) == 0 {
						g.finish()
					}
					g.excused = true
					h.w.probe("reply_from_recycled_command")
					h.stray = append(h.stray, rep)
					h.w.logf("R stray conn=%d rid=%x res=%d recycled=%v (second reply under an id of the same connection)", conn, rid, rep.Result, rep.Recycled)
					return
				}
			}
		}
		if len(r.Replies) == 0 && h.atRisk != nil {
			if g := h.atRisk(conn); g != nil && g != r && len(g.Replies) == 0 && g.InvEv < r.InvEv {
				rep.maybeOf = g
			}
		}
		r.Replies = append(r.Replies, rep)
		if (len(r.Replies) > 1 || r.Op.TFlag&tfAck != 0) && h.w.keepLog {
			_, st := stackClass()
			h.w.logf("SECOND REPLY to c%d#%d built by [%s]", r.Client, r.Idx, st)
		}
		h.w.logf("R c%d#%d conn=%d res=%d type=%d lc=%d lrc=%d data=%x t=%s", r.Client, r.Idx, conn, rep.Result, rep.CmdType, rep.LCount, rep.LRCount, rep.Data, h.w.simT())
		for _, f := range h.onReply {
			f(r, &r.Replies[len(r.Replies)-1])
		}
		if len(r.Replies) == 1 && !r.excused {
			r.finish()
		}
	})
}

// ---------------------------------------------------------------------------------------------
// clients

type Client interface {
	ID() int
	Send(r *ReqRec) error
	Close()
}

// memClient drives the server through MemWaiterServerProtocol, the in-process endpoint the
// server itself uses for replay.
type memClient struct {
	id int
	w  *World
	h  *History
	p  *MemWaiterServerProtocol
}

func newMemClient(w *World, h *History, n *Node, id int) *memClient {
	c := &memClient{id: id, w: w, h: h}
	c.p = NewMemWaiterServerProtocol(n.sl)
	_ = c.p.SetResultCallback(func(_ *MemWaiterServerProtocol, cmd *protocol.LockCommand, result uint8, lcount uint16, lrcount uint8, data []byte) error {
		rep := Reply{Result: result, CmdType: cmd.CommandType, LCount: lcount, LRCount: lrcount, LockId: cmd.LockId}
		if data != nil {
			rep.HasData = true
			rep.Data = append([]byte(nil), data...)
		}
		h.reply(id, cmd.RequestId, rep)
		return nil
	})
	return c
}

func (c *memClient) ID() int { return c.id }
func (c *memClient) Send(r *ReqRec) error {
	cmd := c.p.GetLockCommand()
	r.Op.fill(cmd, r.Id)
	r.Sent = true
	return c.p.ProcessLockCommand(cmd)
}
func (c *memClient) Close() { _ = c.p.Close() }

// binClient speaks the 64-byte binary protocol over a simulated TCP connection. Replies are
// decoded by an independent field reader (not protocol.LockResultCommand.Decode).
type binClient struct {
	id      int
	w       *World
	h       *History
	conn    *snet.SimConn
	closed  bool
	readErr error
	rdone   chan struct{}
	pending map[[16]byte]*ReqRec
	other   [][]byte // non lock/unlock frames received
	onFrame func(frame []byte)
}

func newBinClient(w *World, h *History, addr string, id int) (*binClient, error) {
	cn, err := snet.DialTimeout("tcp", addr, time.Second)
	if err != nil {
		return nil, err
	}
	c := &binClient{id: id, w: w, h: h, conn: cn.(*snet.SimConn), rdone: make(chan struct{}), pending: map[[16]byte]*ReqRec{}}
	c.conn.Label = fmt.Sprintf("bin%d", id)
	go c.readLoop()
	return c, nil
}

func (c *binClient) ID() int { return c.id }

func readFull(cn io.Reader, buf []byte) error {
	n := 0
	for n < len(buf) {
		m, err := cn.Read(buf[n:])
		n += m
		if err != nil {
			return err
		}
	}
	return nil
}

func (c *binClient) readLoop() {
	defer close(c.rdone)
	for {
		frame := make([]byte, 64)
		if err := readFull(c.conn, frame); err != nil {
			c.readErr = err
			return
		}
		if c.onFrame != nil {
			c.onFrame(frame)
		}
		ctype := frame[2]
		if frame[0] != protocol.MAGIC || (ctype != protocol.COMMAND_LOCK && ctype != protocol.COMMAND_UNLOCK) {
			c.other = append(c.other, frame)
			// CALL results carry a length-prefixed body; none are requested by lock clients
			continue
		}
		var rid, lid [16]byte
		copy(rid[:], frame[3:19])
		copy(lid[:], frame[22:38])
		rep := Reply{Result: frame[19], CmdType: ctype, LockId: lid, LCount: uint16(frame[54]) | uint16(frame[55])<<8, LRCount: frame[58]}
		if frame[20]&protocol.LOCK_FLAG_CONTAINS_DATA != 0 {
			lb := make([]byte, 4)
			if err := readFull(c.conn, lb); err != nil {
				c.readErr = err
				return
			}
			dl := int(lb[0]) | int(lb[1])<<8 | int(lb[2])<<16 | int(lb[3])<<24
			body := make([]byte, dl)
			if err := readFull(c.conn, body); err != nil {
				c.readErr = err
				return
			}
			rep.HasData = true
			rep.Data = append(lb, body...)
		}
		c.h.reply(c.id, rid, rep)
	}
}

func (c *binClient) Send(r *ReqRec) error {
	cmd := &protocol.LockCommand{}
	r.Op.fill(cmd, r.Id)
	buf := make([]byte, 64)
	_ = cmd.Encode(buf)
	if cmd.Data != nil {
		buf = append(buf, cmd.Data.Data...)
	}
	r.Sent = true
	_, err := c.conn.Write(buf)
	return err
}

// SendBatch writes several requests in one write (a pipelining client).
func (c *binClient) SendBatch(rs []*ReqRec) error {
	var out []byte
	for _, r := range rs {
		cmd := &protocol.LockCommand{}
		r.Op.fill(cmd, r.Id)
		buf := make([]byte, 64)
		_ = cmd.Encode(buf)
		if cmd.Data != nil {
			buf = append(buf, cmd.Data.Data...)
		}
		r.Sent = true
		out = append(out, buf...)
	}
	_, err := c.conn.Write(out)
	return err
}

func (c *binClient) WriteRaw(b []byte) error { _, err := c.conn.Write(b); return err }

func (c *binClient) Close() {
	if !c.closed {
		c.closed = true
		_ = c.conn.Close()
	}
}

var _ = bytes.Equal
