package server

// W2: a leader and its followers (C09 convergence; the world is shared by C10 and C11).
//
// The leader runs a seeded workload on real log files; followers (real servers started with
// slaveof) join at seeded times with an empty directory, are killed and restarted on their stale
// directory, and have their replication connection cut after a seeded number of bytes of the
// leader->follower stream (file transfer or live phase), partitioned for a while, or slowed by a
// small transport window. When the faults stop the leader is brought to rest; every follower that
// is up must then catch up within a bounded simulated time and hold exactly the leader's
// persisted state.

import (
	"bytes"
	"encoding/json"
	"fmt"
	"path/filepath"
	"sort"
	"strings"
	"time"

	realos "os"

	"github.com/snower/slock/simrt/snet"
	"github.com/snower/slock/simrt/sos"
	"github.com/snower/slock/simrt/ssched"
	"github.com/snower/slock/simrt/ssync"
)

type FollowerOutage struct {
	AtMs   int  `json:"at_ms"`
	DownMs int  `json:"down_ms"`
	Wipe   bool `json:"wipe,omitempty"` // come back with an empty directory
}

type FollowerSpec struct {
	JoinMs      int              `json:"join_ms"`
	Outages     []FollowerOutage `json:"outages,omitempty"`
	CutBytes    []int            `json:"cut_bytes,omitempty"`    // per successive replication connection: reset after k bytes leader->follower (0 = never)
	PartitionMs [][2]int         `json:"partition_ms,omitempty"` // [from, length]
	// DiskStall [from, length, per-write delay] in ms: while it lasts every write to the follower's
	// log files takes that long (a slow disk: its append pipeline falls behind the stream)
	DiskStall [][3]int `json:"disk_stall,omitempty"`
}

type ReplBody struct {
	Clients   []ClientSpec   `json:"clients"`
	NKeys     int            `json:"nkeys"`
	NLids     int            `json:"nlids"`
	Dbs       []int          `json:"dbs"`
	Followers []FollowerSpec `json:"followers"`
	SettleMs  int            `json:"settle_ms"`
	BudgetS   int            `json:"budget_s"` // bound on catching up once faults have stopped
	// Burst: at BurstAtMs an extra client on the leader takes and releases BurstOps persisted holds
	// on keys of its own as fast as it can (hundreds of records within a moment)
	BurstAtMs int `json:"burst_at_ms,omitempty"`
	BurstOps  int `json:"burst_ops,omitempty"`
	// BurstBigEvery > 0: every that-many-th lock of the burst stores a value larger than the
	// 4 KiB buffers of the replication sender (BurstBigSize bytes)
	BurstBigEvery int `json:"burst_big_every,omitempty"`
	BurstBigSize  int `json:"burst_big_size,omitempty"`
	// NewHistory: after the first workload the leader is killed, loses its directory and comes back
	// on the same address with an empty log (a new history that re-uses the same file indexes and
	// offsets); Clients2 then run on it while the followers, still holding the old history and
	// their positions in it, are kept away for HoldbackMs
	NewHistory bool         `json:"new_history,omitempty"`
	Clients2   []ClientSpec `json:"clients2,omitempty"`
	HoldbackMs int          `json:"holdback_ms,omitempty"`
}

func genRepl(prop string, seed uint64, tier string) *Scenario {
	r := ssched.Sub(seed, "gen")
	pipelineOK = false
	rb := &RestartBody{NKeys: 2 + r.Intn(6), NLids: 2 + r.Intn(4), Dbs: []int{0}}
	if r.Intn(3) == 0 {
		rb.Dbs = []int{0, 2}
	}
	uniq := 0
	body := &ReplBody{NKeys: rb.NKeys, NLids: rb.NLids, Dbs: rb.Dbs, SettleMs: 500 + r.Intn(2000), BudgetS: 120}
	body.Clients = genRestartPhaseClients(r, rb, 0, &uniq)
	if r.Intn(2) == 0 {
		body.Clients = append(body.Clients, genRestartPhaseClients(r, rb, 0, &uniq)...)
	}
	for ci := range body.Clients {
		for oi := range body.Clients[ci].Ops {
			o := &body.Clients[ci].Ops[oi]
			if o.Cmd == 1 && r.Intn(3) != 0 {
				o.EFlag = (o.EFlag &^ 0x1300) | efAof0
			}
		}
	}
	nf := 1 + r.Intn(3)
	for f := 0; f < nf; f++ {
		fs := FollowerSpec{JoinMs: r.Intn(6000)}
		if r.Intn(3) == 0 {
			fs.JoinMs = 0
		}
		switch r.Intn(4) {
		case 0:
			n := 1 + r.Intn(2)
			t := fs.JoinMs
			for i := 0; i < n; i++ {
				t += 500 + r.Intn(5000)
				o := FollowerOutage{AtMs: t, DownMs: 200 + r.Intn(6000), Wipe: r.Intn(4) == 0}
				t += o.DownMs
				fs.Outages = append(fs.Outages, o)
			}
		}
		if r.Intn(2) == 0 {
			n := 1 + r.Intn(4)
			for i := 0; i < n; i++ {
				k := 0
				switch r.Intn(3) {
				case 0:
					k = 1 + r.Intn(200) // inside the handshake / first file
				case 1:
					k = 1 + r.Intn(4000)
				case 2:
					k = 64 * (1 + r.Intn(40))
				}
				fs.CutBytes = append(fs.CutBytes, k)
			}
		}
		if r.Intn(5) == 0 {
			fs.PartitionMs = append(fs.PartitionMs, [2]int{fs.JoinMs + r.Intn(6000), 500 + r.Intn(8000)})
		}
		body.Followers = append(body.Followers, fs)
	}
	if r.Intn(4) == 0 {
		// a slow follower under a burst: its pipelines fall a full queue behind
		fi := r.Intn(len(body.Followers))
		at := body.Followers[fi].JoinMs + 300 + r.Intn(3000)
		body.Followers[fi].DiskStall = append(body.Followers[fi].DiskStall, [3]int{at, 1500 + r.Intn(6000), 20 + r.Intn(400)})
		body.BurstAtMs, body.BurstOps = at+r.Intn(300), 80+r.Intn(300)
	} else if r.Intn(6) == 0 {
		body.BurstAtMs, body.BurstOps = r.Intn(6000), 80+r.Intn(300)
	}
	if r.Intn(5) == 0 {
		body.NewHistory = true
		rb2 := &RestartBody{NKeys: rb.NKeys, NLids: rb.NLids, Dbs: rb.Dbs}
		body.Clients2 = genRestartPhaseClients(r, rb2, 1, &uniq)
		for ci := range body.Clients2 {
			for oi := range body.Clients2[ci].Ops {
				o := &body.Clients2[ci].Ops[oi]
				o.Key += 50 // keys of their own: the histories of the two leaders stay apart
				if o.Cmd == 1 && r.Intn(3) != 0 {
					o.EFlag = (o.EFlag &^ 0x1300) | efAof0
				}
			}
		}
		body.HoldbackMs = 300 + r.Intn(5000)
	}
	// drawn from a generator of its own (added later): a follower is restarted on its directory into
	// a burst (what it has to catch up with spans several log rotations), and restarted once more
	// later (whatever its log lost in between shows then)
	restartIntoBurst := false
	if rb := ssched.Sub(seed, "restart-into-burst"); !body.NewHistory && rb.Intn(5) == 0 {
		restartIntoBurst = true
		fi := rb.Intn(len(body.Followers))
		fs := &body.Followers[fi]
		t := fs.JoinMs + 800 + rb.Intn(3000)
		o1 := FollowerOutage{AtMs: t, DownMs: 300 + rb.Intn(2500)}
		back := o1.AtMs + o1.DownMs
		o2 := FollowerOutage{AtMs: back + 1500 + rb.Intn(4000), DownMs: 200 + rb.Intn(2000)}
		fs.Outages = []FollowerOutage{o1, o2}
		body.BurstAtMs, body.BurstOps = back-rb.Intn(500), 150+rb.Intn(350)
		if body.BurstAtMs < 0 {
			body.BurstAtMs = 0
		}
	}
	if bg := ssched.Sub(seed, "bigval"); body.BurstOps > 0 && bg.Intn(2) == 0 {
		body.BurstBigEvery = 2 + bg.Intn(12)
		body.BurstBigSize = []int{4000, 4033, 4100, 6000, 9000, 20000}[bg.Intn(6)]
	}
	raw, _ := json.Marshal(body)
	k := genKnobs(r)
	k.AofFileBufferSize = []uint{64, 256, 1024, 4096}[r.Intn(4)]
	k.AofFileRewriteSize = []uint{1024, 4096, 1 << 20, 1 << 20}[r.Intn(4)]
	k.AofRingBufferSize = []uint{64, 256, 1024, 4096, 65536}[r.Intn(5)]
	if restartIntoBurst {
		// the follower resumes from its position (the leader's buffer still holds it) and the burst
		// rotates the log several times
		kr := ssched.Sub(seed, "restart-into-burst-knobs")
		k.AofFileRewriteSize = []uint{1024, 2048, 4096}[kr.Intn(3)]
		if kr.Intn(4) > 0 {
			k.AofRingBufferSize = 65536
		}
	}
	k.DBLockAofTime = uint(r.Intn(2))
	sc := &Scenario{Knobs: k, Sched: genSched(r, seed), Body: raw, MaxSimS: 6000}
	if r.Intn(3) == 0 {
		sc.Net = NetCfg{LatencyUs: r.Intn(3000), JitterUs: r.Intn(3000), FragPermil: []int{0, 200, 800}[r.Intn(3)]}
	}
	if r.Intn(6) == 0 {
		sc.Net.Window = 256 + r.Intn(4096) // slow followers: the leader's writes block
	}
	return sc
}

// ---------------------------------------------------------------------------------------------

type replRun struct {
	*restartRun
	body      *ReplBody
	leader    *Node
	fnodes    []*Node
	cutIdx    map[int]int
	faultsEnd time.Time
}

// leaderPosition: id (file index, offset) of the last record the leader published; zero if none.
func leaderPosition(sl *SLock) [8]byte {
	id := sl.replicationManager.currentAofId
	var p [8]byte
	copy(p[:], id[:8])
	return p
}

// leaderStreamIdle: the leader has one replication channel per follower and each of them has
// sent everything that was published.
func leaderStreamIdle(sl *SLock, followers int) bool {
	rm := sl.replicationManager
	if rm.serverActiveCount != 0 || len(rm.serverChannels) != followers {
		return false
	}
	for _, ch := range rm.serverChannels {
		if ch.pulledState != 2 || ch.closed {
			return false
		}
	}
	return true
}

// followerCaughtUp: connected, nothing in flight towards it, everything received applied and logged.
func followerCaughtUp(f *SLock, pos [8]byte) bool {
	rm := f.replicationManager
	cc := rm.clientChannel
	if cc == nil || f.state != STATE_FOLLOWER || cc.protocol == nil {
		return false
	}
	if len(cc.replayQueue) != 0 || len(cc.aofQueue) != 0 || len(cc.pushQueue) != 0 {
		return false
	}
	return aofDrained(f)
}

// persistedOnly: the leader's state restricted to what it has persisted (and therefore streamed).
func persistedOnly(m map[string]*CanonKey) map[string]*CanonKey {
	out := map[string]*CanonKey{}
	for k, v := range m {
		c := *v
		c.Holds = nil
		for _, h := range v.Holds {
			if h.IsAof {
				c.Holds = append(c.Holds, h)
			}
		}
		if !c.VAof {
			c.HasV, c.Val = false, ""
		}
		if len(c.Holds) > 0 {
			out[k] = &c
		}
	}
	return out
}

type aofRec struct {
	file string
	id   uint64 // file index << 32 | offset
	buf  [64]byte
}

// readAofDir returns the records of a log directory in load order (rewrite.aof, then the append
// files by index).
func readAofDir(dir string) []aofRec {
	ents, _ := realos.ReadDir(dir)
	var names []string
	idx := map[string]int{}
	for _, e := range ents {
		n := e.Name()
		if strings.HasSuffix(n, ".dat") || strings.Contains(n, ".tmp") {
			continue
		}
		if n == "rewrite.aof" {
			idx[n] = -1
			names = append(names, n)
		} else if strings.HasPrefix(n, "append.aof.") {
			var i int
			fmt.Sscanf(n[len("append.aof."):], "%d", &i)
			idx[n] = i
			names = append(names, n)
		}
	}
	sort.Slice(names, func(a, b int) bool { return idx[names[a]] < idx[names[b]] })
	var out []aofRec
	for _, n := range names {
		b, err := realos.ReadFile(filepath.Join(dir, n))
		if err != nil || len(b) < 12 {
			continue
		}
		for o := 12; o+64 <= len(b); o += 64 {
			al := NewAofLock()
			copy(al.buf, b[o:o+64])
			if al.Decode() != nil {
				continue
			}
			r := aofRec{file: n, id: uint64(al.AofIndex)<<32 | uint64(al.AofOffset)}
			copy(r.buf[:], b[o:o+64])
			out = append(out, r)
		}
	}
	return out
}

// compareLogs: the follower's log holds the leader's records, each once, in the leader's order
// and unchanged (the rewritten flag apart).
func compareLogs(leader, follower []aofRec) (cls, detail string) {
	lm := map[uint64]*aofRec{}
	for i := range leader {
		lm[leader[i].id] = &leader[i]
	}
	var prev uint64
	for i := range follower {
		r := &follower[i]
		if i > 0 && r.id <= prev {
			return "follower_log_out_of_order", fmt.Sprintf("record %d.%d in %s follows record %d.%d: duplicated or reordered", r.id>>32, uint32(r.id), r.file, prev>>32, uint32(prev))
		}
		prev = r.id
		if l := lm[r.id]; l != nil {
			a, b := l.buf, r.buf
			a[55], b[55] = a[55]&^1, b[55]&^1
			if a != b {
				return "follower_log_record_differs", fmt.Sprintf("record %d.%d: leader %x, follower %x", r.id>>32, uint32(r.id), l.buf, r.buf)
			}
		}
	}
	return "", ""
}

type stateDiff struct{ key, kind, detail string }

// diffStates lists, per key and kind, how state b (follower) differs from state a (leader).
func diffStates(a, b map[string]*CanonKey, now int64) []stateDiff {
	// a leader hold that ends within one unit of its expiry granularity (+2 s) need not be on the
	// follower any more: deadlines agree only to within one unit (a 1-minute hold applied a few
	// seconds late has zero whole minutes left)
	due := func(h CanonHold) bool { return h.EFlag&efUnlim == 0 && h.Deadline <= now+deadlineUnit(h.EFlag)+2 }

	var out []stateDiff
	keys := map[string]bool{}
	for k := range a {
		keys[k] = true
	}
	for k := range b {
		keys[k] = true
	}
	var ks []string
	for k := range keys {
		ks = append(ks, k)
	}
	sort.Strings(ks)
	for _, k := range ks {
		x, y := a[k], b[k]
		switch {
		case x == nil:
			out = append(out, stateDiff{k, "extra_key", fmt.Sprintf("key %s is held on the follower (%s) but not in the leader's persisted state", k, canonSig(map[string]*CanonKey{k: y}, false))})
			continue
		case y == nil:
			allDue := true
			for _, h := range x.Holds {
				if !due(h) {
					allDue = false
				}
			}
			if allDue {
				continue
			}
			out = append(out, stateDiff{k, "missing_key", fmt.Sprintf("key %s is held in the leader's persisted state (%s) but not on the follower", k, canonSig(map[string]*CanonKey{k: x}, false))})
			continue
		}
		xh, yh := map[string]CanonHold{}, map[string]CanonHold{}
		for _, h := range x.Holds {
			xh[h.Lid] = h
		}
		for _, h := range y.Holds {
			yh[h.Lid] = h
		}
		for _, h := range x.Holds {
			g, ok := yh[h.Lid]
			if !ok && due(h) {
				continue
			}
			if !ok {
				out = append(out, stateDiff{k, "missing_hold", fmt.Sprintf("key %s: hold %s of the leader is not held on the follower", k, h.Lid[2:6])})
				continue
			}
			if g.Depth != h.Depth || g.Count != h.Count || g.Rcount != h.Rcount {
				out = append(out, stateDiff{k, "hold_differs", fmt.Sprintf("key %s hold %s: leader depth %d Count %d Rcount %d, follower depth %d Count %d Rcount %d", k, h.Lid[2:6], h.Depth, h.Count, h.Rcount, g.Depth, g.Count, g.Rcount)})
			}
			d := g.Deadline - h.Deadline
			if d < 0 {
				d = -d
			}
			if d > deadlineUnit(h.EFlag)+1 {
				kind := "deadline_differs"
				if h.EFlag&efMs != 0 {
					kind = "ms_deadline_differs"
				}
				out = append(out, stateDiff{k, kind, fmt.Sprintf("key %s hold %s (expiry flags 0x%x): leader deadline %d, follower deadline %d", k, h.Lid[2:6], h.EFlag, h.Deadline, g.Deadline)})
			}
		}
		for _, h := range y.Holds {
			if _, ok := xh[h.Lid]; !ok {
				out = append(out, stateDiff{k, "extra_hold", fmt.Sprintf("key %s: hold %s on the follower is not in the leader's persisted state", k, h.Lid[2:6])})
			}
		}
		if x.HasV != y.HasV || x.Val != y.Val {
			out = append(out, stateDiff{k, "value_differs", fmt.Sprintf("key %s: leader's persisted value %v %s, follower's %v %s", k, x.HasV, x.Val, y.HasV, y.Val)})
		}
	}
	return out
}

func runRepl(w *World) {
	body := &ReplBody{}
	if err := json.Unmarshal(w.sc.Body, body); err != nil {
		w.harnessErr("bad body: %v", err)
		return
	}
	rr := &replRun{restartRun: &restartRun{w: w, body: &RestartBody{NKeys: body.NKeys, NLids: body.NLids, Dbs: body.Dbs}, h: newHistory(w)}, body: body, cutIdx: map[int]int{}}
	leaderAddr := "127.0.0.1:5001"
	snet.N.OnDial = func(cl, sv *snet.SimConn) {
		fi := (cl.Node - 100) / 10
		if (sv.Node != 1 && sv.Node != 2) || cl.Node < 100 || fi >= len(body.Followers) {
			return
		}
		cuts := body.Followers[fi].CutBytes
		i := rr.cutIdx[fi]
		rr.cutIdx[fi]++
		if i < len(cuts) && cuts[i] > 0 {
			sv.CutAfter(int64(cuts[i]))
			w.fault("repl_conn_cut_planned")
			w.logf("CUT planned: connection %d of follower n%d is reset after %d bytes from the leader", i, cl.Node, cuts[i])
		}
	}
	if w.keepLog {
		sos.D.OnOp = func(e *sos.JEntry) {
			if e.Op == "sync" || e.Op == "close" || (e.Op == "write" && strings.HasSuffix(e.Path, ".dat")) {
				return
			}
			w.logf("DISK #%d n%d %s %s %s [%s]%s", e.Idx, e.Node, e.Op, filepath.Base(e.Path), filepath.Base(e.Path2), e.Task, describeAofWrite(e))
		}
	}
	if w.keepLog {
		// debugging aid: every change of a follower's lock state, with the path that made it
		last := map[*PriorityMutex]string{}
		ssync.OnAnyRelease = func(m *ssync.Mutex) {
			node := ssched.CurrentNode()
			if node < 100 {
				return
			}
			fi := (node - 100) / 10
			if fi >= len(rr.fnodes) || rr.fnodes[fi] == nil || rr.fnodes[fi].sl == nil || rr.fnodes[fi].id != node {
				return
			}
			pm := shardOf(rr.fnodes[fi].sl, m)
			if pm == nil {
				return
			}
			sig := shardLockSig(rr.fnodes[fi].sl, pm)
			if sig != last[pm] {
				cls, _ := stackClass()
				w.logf("FSTATE n%d [%s] %s => %s", node, cls, last[pm], sig)
				last[pm] = sig
			}
		}
		defer func() { ssync.OnAnyRelease = nil }()
	}
	ssched.SpawnOn(0, "repl-driver", func() {
		defer func() { rr.done = true }()
		t0 := w.now()
		at := func(ms int) {
			d := t0.Add(time.Duration(ms) * time.Millisecond).Sub(w.now())
			if d > 0 {
				sleep(d)
			}
		}
		rr.leader = w.boot(1, w.mkcfg(1, "", ""))
		if !rr.waitReady(rr.leader, "leader start") {
			return
		}
		rr.fnodes = make([]*Node, len(body.Followers))
		fdone := 0
		lastFault := 0
		for fi, fs := range body.Followers {
			fi, fs := fi, fs
			// a killed node id stays dead in the scheduler: every incarnation gets an id of its own
			inc := 0
			id := 100 + fi*10
			dir := filepath.Join(w.root, fmt.Sprintf("follower%d", fi))
			bootFollower := func() {
				id = 100 + fi*10 + inc
				inc++
				_ = realos.MkdirAll(dir, 0755)
				cfg := w.mkcfg(id, leaderAddr, "")
				cfg.DataDir = dir
				rr.fnodes[fi] = w.boot(id, cfg)
			}
			end := fs.JoinMs
			for _, o := range fs.Outages {
				if o.AtMs+o.DownMs > end {
					end = o.AtMs + o.DownMs
				}
			}
			for _, p := range fs.PartitionMs {
				if p[0]+p[1] > end {
					end = p[0] + p[1]
				}
			}
			if end > lastFault {
				lastFault = end
			}
			ssched.SpawnOn(0, fmt.Sprintf("follower-plan%d", fi), func() {
				defer func() { fdone++ }()
				at(fs.JoinMs)
				bootFollower()
				w.fault("follower_join")
				for _, o := range fs.Outages {
					at(o.AtMs)
					w.kill(id)
					w.fault("follower_kill")
					if o.Wipe {
						_ = realos.RemoveAll(dir)
						w.fault("follower_wipe")
					}
					at(o.AtMs + o.DownMs)
					bootFollower()
					w.fault("follower_restart")
				}
			})
			for _, p := range fs.PartitionMs {
				p := p
				ssched.SpawnOn(0, fmt.Sprintf("partition%d", fi), func() {
					at(p[0])
					for k := 0; k < 10; k++ {
						snet.N.Partition(1, 100+fi*10+k, true)
					}
					w.fault("partition")
					at(p[0] + p[1])
					for k := 0; k < 10; k++ {
						snet.N.Partition(1, 100+fi*10+k, false)
					}
					w.fault("heal")
				})
			}
		}
		// slow disks
		stall := map[int]time.Duration{} // follower index -> delay per write while stalled
		sos.D.Inject = func(node int, op, path string, n int, idx int) *sos.Fault {
			if op != "write" || node < 100 {
				return nil
			}
			if d := stall[(node-100)/10]; d > 0 && strings.Contains(filepath.Base(path), ".aof") {
				return &sos.Fault{Delay: d}
			}
			return nil
		}
		for fi, fs := range body.Followers {
			for _, st := range fs.DiskStall {
				fi, st := fi, st
				if st[0]+st[1] > lastFault {
					lastFault = st[0] + st[1]
				}
				ssched.SpawnOn(0, fmt.Sprintf("diskstall%d", fi), func() {
					at(st[0])
					stall[fi] = time.Duration(st[2]) * time.Millisecond
					w.fault("follower_disk_stall")
					at(st[0] + st[1])
					delete(stall, fi)
				})
			}
		}
		if body.BurstOps > 0 {
			ssched.SpawnOn(1, "burstclient", func() {
				at(body.BurstAtMs)
				c := newMemClient(w, rr.h, rr.leader, 90)
				for i := 0; i < body.BurstOps && !ssched.NodeDead(1); i++ {
					key := 40 + i%7
					lo := OpSpec{Cmd: 1, Key: key, Lid: 30 + i%3, Expried: 60, EFlag: efAof0, Count: 0xffff, Wait: true}
					if body.BurstBigEvery > 0 && i%body.BurstBigEvery == body.BurstBigEvery-1 {
						lo.Data = &DataSpec{Op: "set", Val: append([]byte(fmt.Sprintf("big%d-", i)), bytes.Repeat([]byte{'B'}, body.BurstBigSize)...)}
						w.probe("burst_big_values")
					}
					l := rr.h.invoke(90, 2*i, lo)
					_ = c.Send(l)
					u := rr.h.invoke(90, 2*i+1, OpSpec{Cmd: 2, Key: key, Lid: 30 + i%3, Wait: true})
					_ = c.Send(u)
				}
				w.probe("bursts")
			})
		}
		rr.runClients(rr.leader, 0, body.Clients)
		at(lastFault + 10)
		for fdone < len(body.Followers) {
			sleep(50 * time.Millisecond)
		}
		if body.NewHistory {
			// the leader loses its log and starts a new history on the same address
			rr.settle(rr.leader, 200)
			oldDir := rr.leader.dir
			w.kill(1)
			w.fault("leader_kill")
			_ = realos.RemoveAll(oldDir)
			_ = realos.MkdirAll(oldDir, 0755)
			w.fault("leader_wipe")
			sleep(2500 * time.Millisecond) // records of the new history bear a later second
			for fi := range body.Followers {
				for k := 0; k < 10; k++ {
					snet.N.Partition(2, 100+fi*10+k, true)
				}
			}
			cfg := w.mkcfg(2, "", "")
			cfg.DataDir, cfg.Port = oldDir, 5001
			rr.leader = w.boot(2, cfg)
			if !rr.waitReady(rr.leader, "leader restart with an empty directory") {
				return
			}
			held := false
			ssched.SpawnOn(0, "holdback", func() {
				sleep(time.Duration(body.HoldbackMs) * time.Millisecond)
				for fi := range body.Followers {
					for k := 0; k < 10; k++ {
						snet.N.Partition(2, 100+fi*10+k, false)
					}
				}
				held = true
			})
			rr.runClients(rr.leader, 1, body.Clients2)
			for !held {
				sleep(50 * time.Millisecond)
			}
			w.probe("new_histories")
		}
		rr.settle(rr.leader, body.SettleMs)
		if w.res.HarnessErr != "" {
			return
		}
		// no connection is cut from here on
		for fi := range body.Followers {
			rr.cutIdx[fi] = 1 << 30
		}
		for _, c := range snet.N.Conns {
			c.CutAfter(1 << 50)
		}
		rr.faultsEnd = w.now()
		// bounded liveness: every follower catches up within the budget
		deadline := w.now().Add(time.Duration(body.BudgetS) * time.Second)
		var pos [8]byte
		var ls map[string]*CanonKey
		fsnaps := make([]map[string]*CanonKey, len(rr.fnodes))
		var llog []aofRec
		flogs := make([][]aofRec, len(rr.fnodes))
		for {
			all := true
			ssched.NoPreempt(func() {
				pos = leaderPosition(rr.leader.sl)
				if !aofDrained(rr.leader.sl) || !leaderStreamIdle(rr.leader.sl, len(rr.fnodes)) || !snet.N.Quiet() {
					all = false
				}
				for _, fn := range rr.fnodes {
					if fn == nil || fn.sl == nil || !followerCaughtUp(fn.sl, pos) {
						all = false
					}
				}
				if all {
					// the leader keeps publishing (expiries): the states are compared at the very
					// instant at which everything published has been applied everywhere
					ls = canonSnapshot(rr.leader.sl)
					llog = readAofDir(rr.leader.dir)
					for i, fn := range rr.fnodes {
						fsnaps[i] = canonSnapshot(fn.sl)
						flogs[i] = readAofDir(fn.dir)
					}
				}
			})
			if all {
				break
			}
			if w.now().After(deadline) {
				var lag []string
				ssched.NoPreempt(func() {
					for _, fn := range rr.fnodes {
						if fn == nil || fn.sl == nil {
							lag = append(lag, "not started")
							continue
						}
						cc := fn.sl.replicationManager.clientChannel
						if cc == nil {
							lag = append(lag, fmt.Sprintf("n%d: no replication client, state %d, init error %v", fn.id, fn.sl.state, fn.err))
							continue
						}
						lag = append(lag, fmt.Sprintf("n%d: state %d position %x (leader %x) queues %d/%d/%d connects %d", fn.id, fn.sl.state, cc.currentAofId[:8], pos, len(cc.replayQueue), len(cc.aofQueue), len(cc.pushQueue), cc.state.connectCount))
					}
				})
				dumpStacks()
				ssched.NoPreempt(func() {
					rm := rr.leader.sl.replicationManager
					st := fmt.Sprintf("leader: log drained %v, %d replication channels, %d sending, network quiet %v", aofDrained(rr.leader.sl), len(rm.serverChannels), rm.serverActiveCount, snet.N.Quiet())
					for _, ch := range rm.serverChannels {
						st += fmt.Sprintf(" [channel pulled=%d closed=%v]", ch.pulledState, ch.closed)
					}
					lag = append(lag, st)
				})
				w.violate("C09", "follower_not_converged", "%d simulated seconds after the last fault, with the leader at rest, not every follower has caught up: %s", body.BudgetS, strings.Join(lag, "; "))
				return
			}
			sleep(100 * time.Millisecond)
		}
		w.res.Probes["catch_up_ms"] += int(w.now().Sub(rr.faultsEnd).Milliseconds())
		lp := persistedOnly(ls)
		w.logf("LEADER persisted: %s", canonSig(lp, true))
		tainted := rr.taintedKeys()
		for i, fn := range rr.fnodes {
			w.probe("followers_compared")
			if len(lp) > 0 {
				w.probe("followers_compared_with_state")
			}
			cc := fn.sl.replicationManager.clientChannel
			if cc != nil && cc.state.connectCount > 1 {
				w.probe("followers_reconnected")
			}
			if cls, d := compareLogs(llog, flogs[i]); cls != "" {
				w.violate("C09", cls, "follower n%d: %s", fn.id, d)
			}
			w.res.Probes["follower_log_records_compared"] += len(flogs[i])
			fsn := heldOnly(fsnaps[i])
			ok, d := sameRecovered(lp, fsn)
			w.logf("FOLLOWER n%d: %s same=%v %s", fn.id, canonSig(fsn, true), ok, d)
			if ok {
				continue
			}
			// one violation per kind of difference, so that each has a class of its own
			byClass := map[string][]string{}
			for _, df := range diffStates(lp, fsn, w.now().Unix()) {
				cls := "follower_" + df.kind
				switch {
				case dupLockId(lp[df.key]):
					// the leader holds the key twice under one LockId (two queued requests of one LockId were
					// both granted by a wake-up pass, finding F88): replaying the second record on a
					// follower meets a LockId that already holds, and is refused
					cls = "duplid_" + cls
				case tainted[df.key]:
					cls = "relock_" + cls
				case df.kind == "value_differs" && (rr.valueTouchedByEndedHold(df.key, lp[df.key]) || rr.valueTouchedByEndedHold(df.key, fsn[df.key])):
					cls = "endedhold_" + cls
				}
				byClass[cls] = append(byClass[cls], df.detail)
			}
			var cl []string
			for c := range byClass {
				cl = append(cl, c)
			}
			sort.Strings(cl)
			for _, c := range cl {
				w.violate("C09", c, "leader at rest and follower n%d caught up (position %x), but: %s", fn.id, pos, strings.Join(byClass[c], "; "))
			}
		}
	})
	end := w.S.Loop(func() bool {
		if len(w.S.Panics) > 0 {
			p := w.S.Panics[0]
			w.violate(w.sc.Prop, "server_crash@"+panicSite(p.Stack), "a server goroutine panicked: %s [task %s]", p.Value, p.Task)
			return true
		}
		return rr.done && w.S.ReadyLen() == 0 || len(w.res.Violations) > 0
	}, time.Duration(w.sc.MaxSimS)*time.Second)
	w.res.LoopEnd = end
	if end != "done" && w.res.HarnessErr == "" && len(w.res.Violations) == 0 {
		w.harnessErr("replication run did not finish: loop ended with %q", end)
	}
	w.res.Nontrivial = w.res.Probes["followers_compared_with_state"] > 0
	w.res.Faults["conn_resets"] = snet.N.Stats.Resets
	_ = sort.Ints
}

func init() {
	kinds["repl"] = &kindFn{gen: genRepl, run: runRepl}
	propKinds["C09"] = append(propKinds["C09"], struct {
		Kind   string
		Weight int
	}{"repl", 10})
}

// dupLockId: the key is held twice under one LockId.
func dupLockId(k *CanonKey) bool {
	if k == nil {
		return false
	}
	seen := map[string]bool{}
	for _, h := range k.Holds {
		if seen[h.Lid] {
			return true
		}
		seen[h.Lid] = true
	}
	return false
}
