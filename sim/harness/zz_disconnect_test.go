package server

// C18: disconnect semantics: wills run once, nothing leaks or misroutes.
//
// A leader and binary clients on the simulated transport. "Victim" connections optionally
// announce a client id, register will commands, take holds, leave requests queued behind a
// blocker's holds, and end at a seeded moment: closed by the client, by a protocol error (a
// garbage frame), or reset from the server's side; some are followed by a new connection that
// announces the same client id. Bystanders keep working on keys of their own.
//   wills    [LOCK Wa, UNLOCK Wa, LOCK Wb] registered in this order: not held before the
//            connection ends; afterwards Wa became held exactly once and is free, Wb is held at
//            depth 1 (its Rcount would let a second execution show as depth 2)
//   queued   requests left queued end by grant or timeout: when everything has expired the
//            leader has no waiter and no hold on the victims' keys and its counters agree
//   holds    a hold taken by the victim stays until its term ends
//   routing  no connection receives a frame it did not ask for, except a connection that
//            announced the victim's client id

import (
	"encoding/json"
	"fmt"
	"sort"
	"time"

	"github.com/snower/slock/protocol"
	"github.com/snower/slock/simrt/snet"
	"github.com/snower/slock/simrt/ssched"
	"github.com/snower/slock/simrt/ssync"
)

type DCVictim struct {
	ClientId  int    `json:"client_id"` // 0 = no INIT
	Wills     bool   `json:"wills"`
	NHolds    int    `json:"nholds"`
	NQueued   int    `json:"nqueued"`
	CloseMode string `json:"close_mode"` // client | garbage | server_reset
	CloseAtMs int    `json:"close_at_ms"`
	Reconnect bool   `json:"reconnect"`
	QTimeout  uint16 `json:"q_timeout"`
	BadWill   bool   `json:"bad_will,omitempty"`   // its first will addresses a database that does not exist (answered UNKNOWN_DB when it runs)
	Heir      bool   `json:"heir,omitempty"`       // another connection queues behind its first hold shortly before it ends
	Admin     bool   `json:"admin,omitempty"`      // with Text: the text session is opened inside a binary connection by the ADMIN command
	Text      bool   `json:"text,omitempty"`       // a text (RESP) connection: no client id, at most one request left queued
	MoreWills int    `json:"more_wills,omitempty"` // further will LOCKs (keys 10v+8..) registered after the three standard ones
	// Burst > 0: right after the connection has ended a new, unrelated connection sends that many
	// LOCK requests on keys of its own without waiting for the replies
	Burst int `json:"burst,omitempty"`
	// Warmup: ordinary lock/unlock round trips on a key of its own before anything else
	Warmup int `json:"warmup,omitempty"`
	// Chain > 0: the client id reconnects that many times in a row; the requests the first connection
	// left queued time out one after the other (2 s, 4 s, ...), each while another of those
	// connections is the current one, and that connection is closed once it has got its reply
	Chain int `json:"chain,omitempty"`
}

type DCBody struct {
	Victims       []DCVictim `json:"victims"`
	BlockerHoldMs int        `json:"blocker_hold_ms"`
	// ZeroIdBystander: bystander 0 announces the all-zero client id (what a connection that never
	// announced anything carries internally)
	ZeroIdBystander bool       `json:"zero_id_bystander,omitempty"`
	// Reinit: one more connection announces the first victim's client id while the victim is still there,
	// and a moment later announces an id of its own (a second INIT on one connection); it works on a key of
	// its own and closes; the first id's entry in the table of announced ids must be gone by then
	Reinit bool `json:"reinit,omitempty"`
	NBystanders   int        `json:"nbystanders"`
	BystanderOps  int        `json:"bystander_ops"`
	FinalWaitS    int        `json:"final_wait_s"`
}

func genDisconnect(prop string, seed uint64, tier string) *Scenario {
	r := ssched.Sub(seed, "gen")
	pipelineOK = false
	body := &DCBody{BlockerHoldMs: 500 + r.Intn(3000), NBystanders: r.Intn(3), BystanderOps: 4 + r.Intn(10), FinalWaitS: 14}
	nv := 1 + r.Intn(3)
	for v := 0; v < nv; v++ {
		vc := DCVictim{Wills: r.Intn(4) != 0, NHolds: r.Intn(3), NQueued: r.Intn(4), CloseAtMs: 300 + r.Intn(2500), QTimeout: uint16(1 + r.Intn(6)),
			CloseMode: []string{"client", "client", "garbage", "server_reset"}[r.Intn(4)]}
		if r.Intn(2) == 0 {
			vc.ClientId = 1 + v
			vc.Reconnect = r.Intn(2) == 0
		}
		if r.Intn(3) == 0 {
			vc.Text, vc.ClientId, vc.Reconnect = true, 0, false
			if vc.NQueued > 1 {
				vc.NQueued = 1
			}
		}
		if r.Intn(2) == 0 {
			vc.Burst = 2 + r.Intn(10)
		}
		if r.Intn(2) == 0 {
			vc.Warmup = 1 + r.Intn(4)
		}
		if vc.Wills && r.Intn(3) == 0 {
			vc.MoreWills = 1 + r.Intn(2)
			if r.Intn(3) == 0 {
				vc.MoreWills = 3 + r.Intn(4)
			}
		}
		body.Victims = append(body.Victims, vc)
	}
	if ch := ssched.Sub(seed, "chain"); ch.Intn(4) == 0 {
		// drawn from a generator of its own: one victim becomes a chain of reconnects
		vc := &body.Victims[ch.Intn(len(body.Victims))]
		vc.Text, vc.Reconnect, vc.ClientId = false, false, 40+ch.Intn(5)
		vc.Chain = 2 + ch.Intn(2)
		vc.NQueued = vc.Chain + 1
		vc.CloseAtMs = 300 + ch.Intn(900)
		vc.CloseMode = []string{"client", "client", "garbage", "server_reset"}[ch.Intn(4)]
	}
	if bw := ssched.Sub(seed, "badwill"); bw.Intn(4) == 0 {
		for i := range body.Victims {
			if vc := &body.Victims[i]; vc.Wills && !vc.Text && bw.Intn(2) == 0 {
				vc.BadWill = true
			}
		}
	}
	if he := ssched.Sub(seed, "heir"); he.Intn(3) == 0 {
		for i := range body.Victims {
			if vc := &body.Victims[i]; vc.NHolds > 0 && vc.Chain == 0 && he.Intn(2) == 0 {
				vc.Heir = true
			}
		}
	}
	if z := ssched.Sub(seed, "zeroid"); z.Intn(4) == 0 {
		body.ZeroIdBystander = true
		if body.NBystanders == 0 {
			body.NBystanders = 1
		}
	}
	if a := ssched.Sub(seed, "admin"); a.Intn(4) == 0 {
		// drawn from a generator of its own: text victims open their session inside a binary connection
		for i := range body.Victims {
			if body.Victims[i].Text && a.Intn(2) == 0 {
				body.Victims[i].Admin = true
			}
		}
	}
	if q := ssched.Sub(seed, "quit"); q.Intn(5) == 0 {
		// drawn from a generator of its own: one victim ends its connection with the QUIT command
		if vc := &body.Victims[q.Intn(len(body.Victims))]; vc.Chain == 0 {
			vc.CloseMode = "quit"
		}
	}
	if ri := ssched.Sub(seed, "reinit"); ri.Intn(4) == 0 && body.Victims[0].ClientId != 0 {
		body.Reinit = true // a draw stream of its own
	}
	raw, _ := json.Marshal(body)
	k := genKnobs(r)
	sc := &Scenario{Knobs: k, Sched: genSched(r, seed), Body: raw, MaxSimS: 6000}
	if r.Intn(2) == 0 {
		sc.Net = NetCfg{LatencyUs: r.Intn(3000), JitterUs: r.Intn(3000), FragPermil: []int{0, 300, 900}[r.Intn(3)]}
	}
	return sc
}

func dcKeyName(k int) string {
	b := keyBytes(k)
	return fmt.Sprintf("%x", b[:])
}

func dcClientId(i int) [16]byte {
	var b [16]byte
	b[0], b[1], b[15] = 0xC1, byte(i), 0x77
	return b
}

func runDisconnect(w *World) {
	body := &DCBody{}
	if err := json.Unmarshal(w.sc.Body, body); err != nil {
		w.harnessErr("bad body: %v", err)
		return
	}
	h := newHistory(w)
	rr := &restartRun{w: w, h: h}
	done := false
	var leader *Node
	// keys: victim v uses 10v+0 (Wa), 10v+1 (Wb), 10v+2.. (holds), 10v+5.. (queued, blocked); bystanders 200+
	becameHeld := map[string]int{} // "key" -> times it went from unheld to held
	lastHeld := map[string]bool{}
	ssync.OnAnyRelease = func(m *ssync.Mutex) {
		if leader == nil || leader.sl == nil || ssched.CurrentNode() != 1 {
			return
		}
		pm := shardOf(leader.sl, m)
		if pm == nil {
			return
		}
		db := leader.sl.dbs[0]
		if db == nil {
			return
		}
		seen := map[string]bool{}
		for _, mg := range allManagers(db) {
			if mg.refCount == 0xffffffff || mg.glock != pm {
				continue
			}
			k := fmt.Sprintf("%x", mg.lockKey[:])
			held := len(holdersOf(mg)) > 0
			seen[k] = true
			if held && !lastHeld[k] {
				becameHeld[k]++
			}
			lastHeld[k] = held
		}
	}
	defer func() { ssync.OnAnyRelease = nil }()
	holdOn := func(key int) (depth uint8, n int) {
		db := leader.sl.dbs[0]
		if db == nil {
			return 0, 0
		}
		kb := keyBytes(key)
		for _, m := range allManagers(db) {
			if m.refCount == 0xffffffff || m.lockKey != kb {
				continue
			}
			for _, l := range holdersOf(m) {
				n++
				depth = l.locked
			}
		}
		return
	}
	// identOK: the hold on the key (if any) still carries the key and LockId it was taken with
	identOK := func(key, lid int) (bool, string) {
		db := leader.sl.dbs[0]
		if db == nil {
			return true, ""
		}
		kb, lb := keyBytes(key), lidBytes(lid)
		for _, m := range allManagers(db) {
			if m.refCount == 0xffffffff || m.lockKey != kb {
				continue
			}
			for _, l := range holdersOf(m) {
				if l.command == nil || l.command.LockKey != kb || l.command.LockId != lb {
					got := "no command"
					if l.command != nil {
						got = fmt.Sprintf("key %x LockId %x", l.command.LockKey, l.command.LockId)
					}
					return false, got
				}
			}
		}
		return true, ""
	}
	chainDone := map[int]bool{}
	clientIdOfConn := map[int]int{} // history client -> announced client id
	nextCid := 0
	newConn := func(announce int) (*binClient, int, error) {
		cid := nextCid
		nextCid++
		c, err := newBinClient(w, h, leader.addr, cid)
		if err != nil {
			return nil, cid, err
		}
		if announce != 0 {
			clientIdOfConn[cid] = announce
			id := dcClientId(announce)
			if announce < 0 {
				id = [16]byte{}
			}
			ic := protocol.NewInitCommand(id)
			buf := make([]byte, 64)
			_ = ic.Encode(buf)
			if _, err := c.conn.Write(buf); err != nil {
				return c, cid, err
			}
			sleep(20 * time.Millisecond)
		}
		return c, cid, nil
	}
	send := func(c *binClient, cid int, idx *int, op OpSpec, wait bool) *ReqRec {
		r := h.invoke(cid, *idx, op)
		*idx++
		if op.Cmd == protocol.COMMAND_WILL_LOCK || op.Cmd == protocol.COMMAND_WILL_UNLOCK {
			close(r.done) // registrations are not answered
			r.excused = true
		}
		if err := c.Send(r); err != nil {
			r.lost = true
			return r
		}
		if wait {
			waitReply(r, 20*time.Second)
		}
		return r
	}
	ssched.SpawnOn(0, "dc-driver", func() {
		defer func() { done = true }()
		leader = w.boot(1, w.mkcfg(1, "", ""))
		if !rr.waitReady(leader, "leader start") {
			return
		}
		t0 := w.now()
		fin := 0
		total := 0
		// the blocker holds every victim's "queued" keys for a while
		blk, bcid, err := newConn(0)
		if err != nil {
			w.harnessErr("blocker dial: %v", err)
			return
		}
		bidx := 0
		for v, vc := range body.Victims {
			for q := 0; q < vc.NQueued; q++ {
				send(blk, bcid, &bidx, OpSpec{Cmd: 1, Key: 10*v + 5 + q, Lid: 900, Expried: 60, Count: 0}, true)
			}
		}
		for v := range body.Victims {
			v := v
			vc := body.Victims[v]
			total++
			ssched.SpawnOn(0, fmt.Sprintf("victim%d", v), func() {
				defer func() { fin++ }()
				var c *binClient
				var tc *textClient
				var cid int
				var err error
				if vc.Text {
					cid = nextCid
					nextCid++
					if vc.Admin {
						tc, err = newAdminTextClient(w, h, leader.addr, cid)
						w.probe("admin_text_victims")
					} else {
						tc, err = newTextClient(w, h, leader.addr, cid)
					}
					w.probe("text_victims")
				} else {
					c, cid, err = newConn(vc.ClientId)
				}
				if err != nil {
					w.logf("victim %d dial: %v", v, err)
					return
				}
				idx := 0
				lid := 100 + v
				binSend := send
				send := send
				if vc.Text {
					// the same script over a text connection: registrations are answered +OK, every
					// other command line is answered before the next is sent (the last one may be left queued)
					send = func(_ *binClient, cid int, idx *int, op OpSpec, wait bool) *ReqRec {
						if op.Cmd == protocol.COMMAND_WILL_LOCK || op.Cmd == protocol.COMMAND_WILL_UNLOCK {
							o := op
							o.Cmd -= 7
							args := append(textLockArgs(&o), "WILL", "1")
							if v, ok := tc.Do(args...); !ok || v.Kind != '+' {
								w.violate("C18", "will_registration_refused", "victim %d: registering a will over a text connection answered %s", cid, v)
							}
							return nil
						}
						r := h.invoke(cid, *idx, op)
						*idx++
						if err := tc.Send(r); err != nil {
							r.lost = true
							return r
						}
						if wait {
							waitReply(r, 20*time.Second)
						}
						return r
					}
				}
				for i := 0; i < vc.Warmup; i++ {
					send(c, cid, &idx, OpSpec{Cmd: 1, Key: 10*v + 9, Lid: lid, Expried: 5, Count: 0}, true)
					send(c, cid, &idx, OpSpec{Cmd: 2, Key: 10*v + 9, Lid: lid}, true)
				}
				if vc.Wills && vc.BadWill {
					// a will that will be answered UNKNOWN_DB when it runs (database 9 does not exist): the
					// wills registered after it must run all the same
					send(c, cid, &idx, OpSpec{Cmd: protocol.COMMAND_WILL_UNLOCK, Db: 9, Key: 10 * v, Lid: lid}, false)
					w.probe("will_sets_with_a_failing_will")
				}
				if vc.Wills {
					send(c, cid, &idx, OpSpec{Cmd: protocol.COMMAND_WILL_LOCK, Key: 10 * v, Lid: lid, Expried: 300, Count: 0, Rcount: 5}, false)
					send(c, cid, &idx, OpSpec{Cmd: protocol.COMMAND_WILL_UNLOCK, Key: 10 * v, Lid: lid}, false)
					send(c, cid, &idx, OpSpec{Cmd: protocol.COMMAND_WILL_LOCK, Key: 10*v + 1, Lid: lid, Expried: 300, Count: 0, Rcount: 5}, false)
					for x := 0; x < vc.MoreWills; x++ {
						send(c, cid, &idx, OpSpec{Cmd: protocol.COMMAND_WILL_LOCK, Key: 1000 + 10*v + x, Lid: lid, Expried: 300, Count: 0, Rcount: 5}, false)
					}
					if vc.MoreWills > 0 {
						w.probe("will_sets_with_more_wills")
					}
					w.probe("will_sets_registered")
				}
				for k := 0; k < vc.NHolds; k++ {
					send(c, cid, &idx, OpSpec{Cmd: 1, Key: 10*v + 2 + k, Lid: lid, Expried: 8, Count: 0}, true)
				}
				holdAt := w.now()
				queuedAt := w.now()
				var qrecs []*ReqRec
				for q := 0; q < vc.NQueued; q++ {
					to := vc.QTimeout
					if vc.Chain > 0 {
						to = uint16(2 + 2*q)
					}
					qrecs = append(qrecs, send(c, cid, &idx, OpSpec{Cmd: 1, Key: 10*v + 5 + q, Lid: lid, Timeout: to, Expried: 2, Count: 0}, false))
				}
				if d := t0.Add(time.Duration(vc.CloseAtMs) * time.Millisecond).Sub(w.now()); d > 0 {
					sleep(d)
				}
				// nothing of the wills may have happened yet
				ssched.NoPreempt(func() {
					if vc.Wills {
						_, na := holdOn(10 * v)
						_, nb := holdOn(10*v + 1)
						if na > 0 || nb > 0 || becameHeld[dcKeyName(10*v)] > 0 {
							w.violate("C18", "will_ran_before_disconnect", "victim %d: a will command has run while its connection is still open (will keys held: %d, %d)", v, na, nb)
						}
					}
				})
				held := 0
				ssched.NoPreempt(func() {
					for k := 0; k < vc.NHolds; k++ {
						if _, n := holdOn(10*v + 2 + k); n > 0 {
							held++
						}
					}
				})
				var heir *ReqRec
				if vc.Heir && held > 0 {
					// another client queues behind the first hold of the connection that is about to end: the hold
					// stays until its term is over, then the queue is served as after any expiry
					if hc, hcid, err := newConn(0); err == nil {
						hidx := 0
						heir = binSend(hc, hcid, &hidx, OpSpec{Cmd: 1, Key: 10*v + 2, Lid: 600 + v, Timeout: 30, Expried: 2, Count: 0}, false)
						sleep(30 * time.Millisecond)
						w.probe("heirs_queued_behind_holds")
					}
				}
				switch {
				case vc.Text && vc.CloseMode == "client":
					tc.Close()
				case vc.Text && vc.CloseMode == "quit":
					// the QUIT command line: answered, then the server ends the connection; the client closes its side
					_, _ = tc.conn.Write([]byte("*1\r\n$4\r\nQUIT\r\n"))
					sleep(300 * time.Millisecond)
					tc.Close()
				case vc.Text && vc.CloseMode == "garbage":
					_, _ = tc.conn.Write([]byte("\x00\xee junk that is not a command line\r\n"))
				case vc.Text:
					if tc.conn.Peer != nil {
						tc.conn.Peer.ResetNow()
					}
				case vc.CloseMode == "client":
					c.Close()
				case vc.CloseMode == "quit":
					// the QUIT command: answered, then the server ends the connection; the client closes its side
					quit := make([]byte, 64)
					_ = protocol.NewQuitCommand().Encode(quit)
					_, _ = c.conn.Write(quit)
					sleep(300 * time.Millisecond)
					c.Close()
				case vc.CloseMode == "garbage":
					junk := make([]byte, 64)
					for i := range junk {
						junk[i] = 0xEE
					}
					_, _ = c.conn.Write(junk)
				case vc.CloseMode == "server_reset":
					if c.conn.Peer != nil {
						c.conn.Peer.ResetNow()
					}
				}
				w.fault("disconnect_" + vc.CloseMode)
				closedAt := w.now()
				if vc.Reconnect {
					sleep(time.Duration(50) * time.Millisecond)
					if _, _, err := newConn(vc.ClientId); err == nil {
						w.probe("reconnects_with_same_client_id")
					}
				}
				if vc.Chain > 0 {
					// the replies to the requests the first connection left queued are addressed to the
					// client id: each must reach the connection that is the client's current one when it is
					// produced (the blocker keeps the keys, so the replies are the timeouts)
					gotOn := func(rid [16]byte) int {
						for _, rep := range h.stray {
							if rep.StrayRid == rid && !rep.Recycled {
								return rep.Conn
							}
						}
						return -1
					}
					for i := 0; i <= vc.Chain && i < len(qrecs); i++ {
						sleep(50 * time.Millisecond)
						nc, ncid, err := newConn(vc.ClientId)
						if err != nil {
							break
						}
						connectedAt := w.now()
						w.probe("chain_reconnects")
						due := queuedAt.Add(time.Duration(2+2*i) * time.Second) // earliest moment of the reply
						deadline := due.Add(3500 * time.Millisecond)
						for w.now().Before(deadline) && gotOn(qrecs[i].Id) < 0 {
							sleep(20 * time.Millisecond)
						}
						if on := gotOn(qrecs[i].Id); on != ncid && due.Sub(connectedAt) > 300*time.Millisecond && !qrecs[i].lost {
							if on < 0 {
								w.violate("C18", "reply_not_delivered_to_reconnected_client", "victim %d (client id %d, first connection closed by %s): the reply to its queued request number %d (timeout %d s) was due while connection number %d of the same client id had been connected for %v, and never arrived there", v, vc.ClientId, vc.CloseMode, i, 2+2*i, i+1, due.Sub(connectedAt))
							} else {
								w.violate("C18", "reply_to_stale_connection", "victim %d (client id %d): the reply to its queued request number %d arrived on connection %d, not on the client's current connection %d", v, vc.ClientId, i, on, ncid)
							}
						} else if on == ncid {
							w.probe("chain_replies_delivered")
						}
						if i < vc.Chain {
							nc.Close()
							w.fault("chain_disconnect")
						}
					}
					// the blocker lets go of this victim's keys now
					chainDone[v] = true
				}
				if vc.Burst > 0 {
					sleep(30 * time.Millisecond)
					if nc, ncid, err := newConn(0); err == nil {
						nidx := 0
						for i := 0; i < vc.Burst; i++ {
							binSend(nc, ncid, &nidx, OpSpec{Cmd: 1, Key: 300 + 20*v + i, Lid: 700 + v, Expried: 2, Count: 0}, false)
						}
						w.probe("bursts_after_disconnect")
					}
				}
				sleep(1500 * time.Millisecond)
				if vc.Text && vc.NQueued > 0 {
					// a text connection serves one command line at a time: while its last request is
					// queued the server does not read the connection, so it learns of the end when that
					// request is granted or times out. The property sets no deadline for the wills.
					if d := queuedAt.Add(time.Duration(vc.QTimeout)*time.Second + 3500*time.Millisecond).Sub(w.now()); d > 0 {
						sleep(d)
					}
				}
				ssched.NoPreempt(func() {
					if vc.Wills {
						ka := dcKeyName(10 * v)
						kbk := dcKeyName(10*v + 1)
						_, na := holdOn(10 * v)
						db, nb := holdOn(10*v + 1)
						w.probe("will_sets_checked")
						switch {
						case becameHeld[ka] == 0 && nb == 0:
							w.violate("C18", "wills_not_run", "victim %d (closed by %s): 1.5 s after its connection ended none of its will commands has run", v, vc.CloseMode)
						case becameHeld[ka] > 1 || becameHeld[kbk] > 1 || db > 1:
							w.violate("C18", "will_ran_more_than_once", "victim %d (closed by %s): will LOCK A ran %d times, will LOCK B %d times (depth %d)", v, vc.CloseMode, becameHeld[ka], becameHeld[kbk], db)
						case na > 0:
							w.violate("C18", "wills_out_of_order", "victim %d (closed by %s): wills LOCK A, UNLOCK A, LOCK B were registered in this order, but A is held afterwards: the unlock ran before the lock", v, vc.CloseMode)
						case nb != 1 || becameHeld[ka] != 1:
							w.violate("C18", "wills_incomplete", "victim %d (closed by %s): after its connection ended will key A became held %d times and B is held by %d (expected 1 and 1)", v, vc.CloseMode, becameHeld[ka], nb)
						default:
							for x := 0; x < vc.MoreWills; x++ {
								if d, n := holdOn(1000 + 10*v + x); n != 1 || d != 1 {
									w.violate("C18", "wills_incomplete", "victim %d (closed by %s, %d will commands on a %s connection): will LOCK number %d is held by %d (depth %d) 1.5 s after the connection ended, expected exactly once", v, vc.CloseMode, 3+vc.MoreWills, map[bool]string{true: "text", false: "binary"}[vc.Text], 4+x, n, d)
									break
								}
							}
						}
					}
					// holds stay valid until their term ends (8 s terms, checked 1.5 s after the end)
					if w.now().Sub(t0) < 7*time.Second {
						still := 0
						for k := 0; k < vc.NHolds; k++ {
							if _, n := holdOn(10*v + 2 + k); n > 0 {
								still++
							}
						}
						if held > 0 {
							w.probe("holds_of_closed_connections_checked")
						}
						if still < held {
							w.violate("C18", "hold_dropped_on_disconnect", "victim %d (closed by %s): %d of its %d holds were released although their terms have not ended", v, vc.CloseMode, held-still, held)
						}
						for k := 0; k < vc.NHolds; k++ {
							if ok, got := identOK(10*v+2+k, lid); !ok {
								w.violate("C18", "hold_of_closed_connection_corrupted", "victim %d (closed by %s): the hold it left on key %d under LockId %d now reads %s: state of the ended connection is shared with another client", v, vc.CloseMode, 10*v+2+k, lid, got)
								break
							}
						}
					}
					if vc.Wills {
						if ok, got := identOK(10*v+1, lid); !ok {
							w.violate("C18", "hold_of_closed_connection_corrupted", "victim %d (closed by %s): the hold its will took on key %d under LockId %d now reads %s", v, vc.CloseMode, 10*v+1, lid, got)
						}
					}
				})
				_ = closedAt
				if heir != nil {
					if d := holdAt.Add(10500 * time.Millisecond).Sub(w.now()); d > 0 {
						sleep(d)
					}
					if len(heir.Replies) == 0 || heir.Replies[0].Result != protocol.RESULT_SUCCED {
						res := -1
						if len(heir.Replies) > 0 {
							res = int(heir.Replies[0].Result)
						}
						w.violate("C18", "queue_behind_hold_of_closed_connection_not_served", "victim %d (closed by %s): its hold on key %d (8 s term) has ended, the request that another connection queued behind it (timeout 30 s) has not been granted %.1f s after the hold was taken (reply: %d, -1 = none)", v, vc.CloseMode, 10*v+2, w.now().Sub(holdAt).Seconds(), res)
					} else {
						w.probe("heirs_served")
					}
				}
			})
		}
		if body.Reinit {
			total++
			ssched.SpawnOn(0, "reinit", func() {
				defer func() { fin++ }()
				sleep(150 * time.Millisecond)
				c, cid, err := newConn(body.Victims[0].ClientId)
				if err != nil {
					return
				}
				sleep(80 * time.Millisecond)
				ic := protocol.NewInitCommand(dcClientId(700))
				buf := make([]byte, 64)
				_ = ic.Encode(buf)
				if _, err := c.conn.Write(buf); err != nil {
					return
				}
				// for the routing rule this connection stays one that announced the victim's id (it did; replies of
				// the victim that reach it are within the letter of the property, and the server hands it the
				// victim's reply channel for good if the victim ends between the two announcements). What the
				// second INIT must not do is leave the first id's entry behind: the connection is closed at the
				// end of its work and the final check of the id table looks for entries of closed connections
				idx := 0
				w.probe("second_init_connections")
				defer c.Close()
				for i := 0; i < body.BystanderOps+6; i++ {
					send(c, cid, &idx, OpSpec{Cmd: 1, Key: 230, Lid: 530, Expried: 5, Count: 0, DelayMs: 100}, true)
					sleep(400 * time.Millisecond)
					send(c, cid, &idx, OpSpec{Cmd: 2, Key: 230, Lid: 530}, true)
					sleep(400 * time.Millisecond)
				}
			})
		}
		for b := 0; b < body.NBystanders; b++ {
			b := b
			total++
			ssched.SpawnOn(0, fmt.Sprintf("bystander%d", b), func() {
				defer func() { fin++ }()
				announce := 0
				if b == 0 && body.ZeroIdBystander {
					announce = -1
					w.probe("zero_id_bystanders")
				}
				c, cid, err := newConn(announce)
				if err != nil {
					return
				}
				idx := 0
				for i := 0; i < body.BystanderOps; i++ {
					send(c, cid, &idx, OpSpec{Cmd: 1, Key: 200 + b, Lid: 500 + b, Expried: 5, Count: 0, DelayMs: 100}, true)
					sleep(150 * time.Millisecond)
					send(c, cid, &idx, OpSpec{Cmd: 2, Key: 200 + b, Lid: 500 + b}, true)
					sleep(150 * time.Millisecond)
				}
			})
		}
		// the blocker lets go after a while: the queued requests of closed connections are granted or time out
		sleep(time.Duration(body.BlockerHoldMs) * time.Millisecond)
		for v, vc := range body.Victims {
			if vc.Chain > 0 {
				continue
			}
			for q := 0; q < vc.NQueued; q++ {
				send(blk, bcid, &bidx, OpSpec{Cmd: 2, Key: 10*v + 5 + q, Lid: 900}, true)
			}
		}
		released := map[int]bool{}
		for i := 0; i < 6000; i++ {
			for v, vc := range body.Victims {
				if vc.Chain > 0 && chainDone[v] && !released[v] {
					released[v] = true
					for q := 0; q < vc.NQueued; q++ {
						send(blk, bcid, &bidx, OpSpec{Cmd: 2, Key: 10*v + 5 + q, Lid: 900}, true)
					}
				}
			}
			if fin >= total {
				break
			}
			sleep(10 * time.Millisecond)
		}
		for v, vc := range body.Victims {
			if vc.Chain > 0 && !released[v] {
				for q := 0; q < vc.NQueued; q++ {
					send(blk, bcid, &bidx, OpSpec{Cmd: 2, Key: 10*v + 5 + q, Lid: 900}, true)
				}
			}
		}
		sleep(time.Duration(body.FinalWaitS) * time.Second)
		ssched.NoPreempt(func() {
			db := leader.sl.dbs[0]
			if db == nil {
				return
			}
			waiters, holds := 0, 0
			for _, m := range allManagers(db) {
				if m.refCount == 0xffffffff {
					continue
				}
				waiters += len(waitersOf(m))
				holds += len(holdersOf(m))
			}
			expect := 0
			for _, vc := range body.Victims {
				if vc.Wills {
					expect += 1 + vc.MoreWills // will key B and the further will LOCKs, 300 s terms
				}
			}
			// the table of announced client ids: an entry whose connection has ended is a leak (and the door
			// through which a later reply reaches a stranger)
			var stale []string
			for id, sp := range leader.sl.clients {
				if bp, ok := sp.(*BinaryServerProtocol); ok && bp.closed {
					stale = append(stale, fmt.Sprintf("%x", id[:4]))
				}
			}
			if len(stale) > 0 {
				sort.Strings(stale)
				w.violate("C18", "client_table_entry_of_closed_connection", "after every connection of the workload has ended the leader's table of announced client ids still holds %d entries that point at closed connections (ids %v)", len(stale), stale)
			}
			st := db.GetState()
			w.probe("final_state_checked")
			if waiters != 0 || holds != expect {
				w.violate("C18", "state_left_behind", "after every term and timeout has passed the leader has %d waiters and %d holds (expected 0 and %d: one will hold per victim that registered wills)", waiters, holds, expect)
			} else if int(st.WaitCount) != 0 || int(st.LockedCount) != expect {
				w.violate("C18", "counters_left_behind", "after every term and timeout has passed the leader's counters say %d waiting and %d locked, the tables hold 0 and %d", st.WaitCount, st.LockedCount, expect)
			}
			// routing: frames nobody on that connection asked for
			for _, rep := range h.stray {
				if rep.Recycled {
					continue
				}
				if a := clientIdOfConn[rep.Conn]; a != 0 {
					// a connection that announced a client id receives the replies of closed connections
					// that had announced the same id, and of nobody else
					if o := h.reqs[rep.StrayRid]; o != nil && clientIdOfConn[o.Client] != a {
						w.violate("C18", "reply_to_unrelated_client", "connection %d, which announced client id %d, received the reply (result %d) to request %s of connection %d, which had announced %d (0: none; -1: the all-zero id)", rep.Conn, a, rep.Result, o, o.Client, clientIdOfConn[o.Client])
						continue
					}
					w.probe("replies_rerouted_to_same_client_id")
					continue
				}
				w.violate("C18", "reply_to_unrelated_connection", "connection %d, which announced no client id, received a reply (result %d, request id %x) to a request it never sent", rep.Conn, rep.Result, rep.StrayRid[:8])
			}
		})
	})
	end := w.S.Loop(func() bool {
		if len(w.S.Panics) > 0 {
			p := w.S.Panics[0]
			w.violate(w.sc.Prop, "server_crash@"+panicSite(p.Stack), "a server goroutine panicked: %s [task %s]", p.Value, p.Task)
			return true
		}
		return done && w.S.ReadyLen() == 0 || len(w.res.Violations) > 0
	}, time.Duration(w.sc.MaxSimS)*time.Second)
	w.res.LoopEnd = end
	if end != "done" && w.res.HarnessErr == "" && len(w.res.Violations) == 0 {
		w.harnessErr("run did not finish: loop ended with %q", end)
	}
	w.res.Nontrivial = w.res.Probes["final_state_checked"] > 0
	w.res.Faults["conn_resets"] = snet.N.Stats.Resets
}

func init() {
	kinds["disconnect"] = &kindFn{gen: genDisconnect, run: runDisconnect}
	propKinds["C18"] = append(propKinds["C18"], struct {
		Kind   string
		Weight int
	}{"disconnect", 10})
}
