package server

// Simulation harness, part 3: the single-leader "core" world (W1) — workload generator for the
// core command subset, runner, census and the always-on oracles shared by C01-C06, C15, C17.

import (
	"encoding/json"
	"fmt"
	"sort"
	"strings"
	"time"

	"github.com/snower/slock/protocol"
	"github.com/snower/slock/simrt/ssched"
)

type ClientSpec struct {
	Kind    string   `json:"kind"` // mem | bin | text
	StartMs int      `json:"start_ms,omitempty"`
	Ops     []OpSpec `json:"ops"`
}

type CoreBody struct {
	Clients []ClientSpec `json:"clients"`
	Serial  bool         `json:"serial,omitempty"` // one foreground request in flight at a time
	NKeys   int          `json:"nkeys"`
	NLids   int          `json:"nlids"`
	Dbs     []int        `json:"dbs"`
	// Profile names the generator bias that produced the workload (documentation only).
	Profile   string `json:"profile,omitempty"`
	NoMonitor bool   `json:"no_monitor,omitempty"`
	// ShortDrain: the run holds terms of hours or weeks: at the end the drain client cancels the
	// requests still queued and releases the holds still held instead of waiting for them, and the
	// final wait is capped (the lazily discarded wheel entries of those requests outlive the run)
	ShortDrain bool `json:"short_drain,omitempty"`
}

// ---------------------------------------------------------------------------------------------
// white-box snapshot of one key

type HoldSnap struct {
	Lid      [16]byte
	Req      [16]byte
	Depth    uint8
	Count    uint16
	Rcount   uint8
	TFlag    uint16
	EFlag    uint16
	Expried  uint16
	Deadline int64
	Start    int64
	IsAof    bool
	AckPend  bool
	ptr      *Lock
}

type WaitSnap struct {
	Lid     [16]byte
	Req     [16]byte
	Count   uint16
	Rcount  uint8
	TFlag   uint16
	Timeout uint16
	Prio    uint8
	Dead    int64
	ptr     *Lock
}

type KeySnap struct {
	Present bool
	Locked  uint32
	Waited  bool
	Holders []HoldSnap
	Waiters []WaitSnap
	Value   []byte
	HasVal  bool
	Ref     uint32
}

// findManager returns the live manager of a key (a manager whose reference count carries the
// 0xffffffff tombstone is being recycled and serves nobody).
func findManager(db *LockDB, key [16]byte) *LockManager {
	if db == nil {
		return nil
	}
	for i := range db.fastLocks {
		if m := db.fastLocks[i].manager; m != nil && m.lockKey == key && m.refCount != 0xffffffff {
			return m
		}
	}
	if m, ok := db.locks[key]; ok && m.refCount != 0xffffffff {
		return m
	}
	return nil
}

// managersFor returns every live manager that claims the key (there must be at most one).
func managersFor(db *LockDB, key [16]byte) []*LockManager {
	var out []*LockManager
	for i := range db.fastLocks {
		if m := db.fastLocks[i].manager; m != nil && m.lockKey == key && m.refCount != 0xffffffff {
			out = append(out, m)
		}
	}
	if m, ok := db.locks[key]; ok && m.lockKey == key && m.refCount != 0xffffffff {
		dup := false
		for _, o := range out {
			if o == m {
				dup = true
			}
		}
		if !dup {
			out = append(out, m)
		}
	}
	return out
}

func allManagers(db *LockDB) []*LockManager {
	var out []*LockManager
	for i := range db.fastLocks {
		if m := db.fastLocks[i].manager; m != nil {
			out = append(out, m)
		}
	}
	keys := make([][16]byte, 0, len(db.locks))
	for k := range db.locks {
		keys = append(keys, k)
	}
	sort.Slice(keys, func(i, j int) bool { return string(keys[i][:]) < string(keys[j][:]) })
	for _, k := range keys {
		out = append(out, db.locks[k])
	}
	return out
}

func holdersOf(m *LockManager) []*Lock {
	var out []*Lock
	if m.currentLock != nil && m.currentLock.locked > 0 {
		out = append(out, m.currentLock)
	}
	if m.locks != nil {
		for _, node := range m.locks.IterNodes() {
			for _, l := range node {
				if l != nil && l.locked > 0 && l.manager == m && l != m.currentLock {
					out = append(out, l)
				}
			}
		}
	}
	return out
}

func waitersOf(m *LockManager) []*Lock {
	var out []*Lock
	if m.waitLocks != nil {
		for _, node := range m.waitLocks.IterNodes() {
			for _, l := range node {
				if l != nil && !l.timeouted && l.ackCount == 0xff && l.manager == m {
					out = append(out, l)
				}
			}
		}
	}
	return out
}

func snapManager(m *LockManager) KeySnap {
	var s KeySnap
	if m == nil {
		return s
	}
	s.Present, s.Locked, s.Waited, s.Ref = true, m.locked, m.waited, m.refCount
	for _, l := range holdersOf(m) {
		hs := HoldSnap{Depth: l.locked, Deadline: l.expriedTime, Start: l.startTime, IsAof: l.isAof, AckPend: l.ackCount != 0xff, ptr: l}
		if c := l.command; c != nil {
			hs.Lid, hs.Req, hs.Count, hs.Rcount, hs.TFlag, hs.EFlag, hs.Expried = c.LockId, aliasRid(c.RequestId), c.Count, c.Rcount, c.TimeoutFlag, c.ExpriedFlag, c.Expried
		}
		s.Holders = append(s.Holders, hs)
	}
	for _, l := range waitersOf(m) {
		ws := WaitSnap{Dead: l.timeoutTime, ptr: l}
		if c := l.command; c != nil {
			ws.Lid, ws.Req, ws.Count, ws.Rcount, ws.TFlag, ws.Timeout = c.LockId, aliasRid(c.RequestId), c.Count, c.Rcount, c.TimeoutFlag, c.Timeout
			if c.TimeoutFlag&protocol.TIMEOUT_FLAG_RCOUNT_IS_PRIORITY != 0 {
				ws.Prio = c.Rcount
			}
		}
		s.Waiters = append(s.Waiters, ws)
	}
	if d := m.GetLockData(); d != nil {
		s.HasVal = true
		s.Value = append([]byte(nil), d...)
	}
	return s
}

func (s *KeySnap) depthSum() uint32 {
	var n uint32
	for _, h := range s.Holders {
		n += uint32(h.Depth)
	}
	return n
}

func (s *KeySnap) sig() string {
	var b strings.Builder
	fmt.Fprintf(&b, "L%d|", s.Locked)
	for _, h := range s.Holders {
		fmt.Fprintf(&b, "h%x:%d:%d:%d:%x;", h.Lid[1:3], h.Depth, h.Count, h.Rcount, h.Req[1:7])
	}
	for _, wt := range s.Waiters {
		fmt.Fprintf(&b, "w%x:%d:%d:%x;", wt.Lid[1:3], wt.Count, wt.Prio, wt.Req[1:7])
	}
	if s.HasVal {
		fmt.Fprintf(&b, "v%x", s.Value)
	}
	return b.String()
}

// census compares the STATE counters of every database with a count of holders, live waiters
// and live key managers (C17) and returns the totals.
type Census struct {
	Holds, Depth, Waiters, Keys, Values int
	StLocked, StWait, StKeys            uint32
}

func (w *World) census(sl *SLock) Census {
	var c Census
	for _, db := range sl.dbs {
		if db == nil {
			continue
		}
		for _, m := range allManagers(db) {
			c.Keys++
			hs := holdersOf(m)
			c.Holds += len(hs)
			for _, l := range hs {
				c.Depth += int(l.locked)
			}
			c.Waiters += len(waitersOf(m))
			if m.GetLockData() != nil {
				c.Values++
			}
		}
		st := db.GetState()
		c.StLocked += st.LockedCount
		c.StWait += st.WaitCount
		c.StKeys += st.KeyCount
	}
	return c
}

func iterLockQueue(q *LockQueue, f func(l *Lock)) {
	if q == nil || q.Len() == 0 {
		return
	}
	for n := range q.IterNodes() {
		for _, l := range q.IterNodeQueues(int32(n)) {
			if l != nil {
				f(l)
			}
		}
	}
}

// reachability scan: no recycled Lock (manager == nil) may be reachable from a live structure.
func (w *World) scanFreed(sl *SLock) []string {
	var bad []string
	for dbi, db := range sl.dbs {
		if db == nil {
			continue
		}
		for _, m := range allManagers(db) {
			if m.currentLock != nil && m.currentLock.manager == nil {
				bad = append(bad, fmt.Sprintf("db%d key %x: freed lock is the oldest holder", dbi, m.lockKey))
			}
			if m.locks != nil {
				for _, node := range m.locks.IterNodes() {
					for _, l := range node {
						if l != nil && l.manager == nil {
							bad = append(bad, fmt.Sprintf("db%d key %x: freed lock in holder list", dbi, m.lockKey))
						}
					}
				}
			}
			if m.waitLocks != nil {
				for _, node := range m.waitLocks.IterNodes() {
					for _, l := range node {
						if l != nil && l.manager == nil {
							bad = append(bad, fmt.Sprintf("db%d key %x: freed lock in wait queue", dbi, m.lockKey))
						}
					}
				}
			}
		}
		chk := func(where string, l *Lock) {
			if l != nil && l.manager == nil {
				bad = append(bad, fmt.Sprintf("db%d: freed lock in %s", dbi, where))
			}
		}
		for i := range db.timeoutLocks {
			for j := range db.timeoutLocks[i] {
				iterLockQueue(db.timeoutLocks[i][j], func(l *Lock) { chk("timeout wheel", l) })
			}
		}
		for i := range db.expriedLocks {
			for j := range db.expriedLocks[i] {
				iterLockQueue(db.expriedLocks[i][j], func(l *Lock) { chk("expiry wheel", l) })
			}
		}
		for j := range db.longTimeoutLocks {
			for _, q := range db.longTimeoutLocks[j] {
				iterLockQueue(&q.locks, func(l *Lock) { chk("long timeout table", l) })
			}
		}
		for j := range db.longExpriedLocks {
			for _, q := range db.longExpriedLocks[j] {
				iterLockQueue(&q.locks, func(l *Lock) { chk("long expiry table", l) })
			}
		}
		for j := range db.millisecondTimeoutLocks {
			for _, q := range db.millisecondTimeoutLocks[j] {
				if q != nil {
					iterLockQueue(&q.LockQueue, func(l *Lock) { chk("millisecond timeout wheel", l) })
				}
			}
		}
		for j := range db.millisecondExpriedLocks {
			for _, q := range db.millisecondExpriedLocks[j] {
				if q != nil {
					iterLockQueue(&q.LockQueue, func(l *Lock) { chk("millisecond expiry wheel", l) })
				}
			}
		}
	}
	return bad
}

// scanCommandPools: every pooled command object (the server-wide pool, and the free lists of every open
// connection and of the given in-memory endpoints) is pooled once, and none of them is the command of a
// hold or of a queued request: an object that is pooled twice is handed to two requests at once, one that
// is pooled while in use is overwritten under the request that owns it.
func (w *World) scanCommandPools(n *Node, mems []*MemWaiterServerProtocol) []string {
	var bad []string
	sl := n.sl
	seen := map[*protocol.LockCommand]string{}
	note := func(c *protocol.LockCommand, where string) {
		if c == nil {
			return
		}
		if prev, ok := seen[c]; ok {
			// (no pointer value in the text: it goes into the event log, whose hash must not depend on addresses)
			bad = append(bad, fmt.Sprintf("a command object (last used for LockId %x on key %x) is in %s and in %s", c.LockId[:3], c.LockKey[:3], prev, where))
			return
		}
		seen[c] = where
	}
	queue := func(q *LockCommandQueue, where string) {
		if q == nil {
			return
		}
		for i := range q.IterNodes() {
			for _, c := range q.IterNodeQueues(int32(i)) {
				note(c, where)
			}
		}
	}
	queue(sl.freeLockCommandQueue, "the server-wide pool")
	ci := 0
	if n.srv != nil {
		for st := n.srv.streams; st != nil; st = st.nextStream {
			ci++
			switch p := st.protocol.(type) {
			case *BinaryServerProtocol:
				for i := 0; i < p.freeCommandIndex && i < len(p.freeCommands); i++ {
					note(p.freeCommands[i], fmt.Sprintf("the free list of connection %d", ci))
				}
				queue(p.lockedFreeCommands, fmt.Sprintf("the locked free list of connection %d", ci))
			case *TextServerProtocol:
				for i := 0; i < p.freeCommandIndex && i < len(p.freeCommands); i++ {
					note(p.freeCommands[i], fmt.Sprintf("the free list of text connection %d", ci))
				}
				queue(p.lockedFreeCommands, fmt.Sprintf("the locked free list of text connection %d", ci))
			}
		}
	}
	for i, p := range mems {
		if p == nil || p.closed {
			continue
		}
		for j := 0; j < p.freeCommandIndex && j < len(p.freeCommands); j++ {
			note(p.freeCommands[j], fmt.Sprintf("the free list of in-memory endpoint %d", i))
		}
		queue(p.lockedFreeCommands, fmt.Sprintf("the locked free list of in-memory endpoint %d", i))
	}
	for dbi, db := range sl.dbs {
		if db == nil {
			continue
		}
		for _, m := range allManagers(db) {
			if m.refCount == 0xffffffff {
				continue
			}
			for _, l := range holdersOf(m) {
				if where, ok := seen[l.command]; ok && l.command != nil {
					bad = append(bad, fmt.Sprintf("db%d key %x: the command of a hold (LockId %x) is in %s", dbi, m.lockKey, l.command.LockId[:3], where))
				}
			}
			for _, l := range waitersOf(m) {
				if where, ok := seen[l.command]; ok && l.command != nil {
					bad = append(bad, fmt.Sprintf("db%d key %x: the command of a queued request (LockId %x) is in %s", dbi, m.lockKey, l.command.LockId[:3], where))
				}
			}
		}
	}
	return bad
}

// ---------------------------------------------------------------------------------------------
// generator

const (
	tfPriority = protocol.TIMEOUT_FLAG_RCOUNT_IS_PRIORITY
	tfMinute   = protocol.TIMEOUT_FLAG_MINUTE_TIME
	tfMs       = protocol.TIMEOUT_FLAG_MILLISECOND_TIME
	tfWaitUnl  = protocol.TIMEOUT_FLAG_LOCK_WAIT_WHEN_UNLOCK
	tfAck      = protocol.TIMEOUT_FLAG_REQUIRE_ACKED
	efMinute   = protocol.EXPRIED_FLAG_MINUTE_TIME
	efMs       = protocol.EXPRIED_FLAG_MILLISECOND_TIME
	efUnlim    = protocol.EXPRIED_FLAG_UNLIMITED_EXPRIED_TIME
	efAof0     = protocol.EXPRIED_FLAG_ZEOR_AOF_TIME
	efAofNever = protocol.EXPRIED_FLAG_UNLIMITED_AOF_TIME
	efAofPct   = protocol.EXPRIED_FLAG_AOF_TIME_OF_EXPRIED_PARCENT
)

type genCfg struct {
	profile       string
	nClients      [2]int
	nOps          [2]int
	nKeys         [2]int
	nLids         [2]int
	counts        []uint16
	uniformCount  bool
	pUnlock       int // permille
	pWait         int
	pFlagShow     int
	pFlagUpdate   int
	pFlagConc     int
	pUnlockFirst  int
	pCancel       int
	pPriority     int
	pWaitUnl      int
	pMs           int
	pMinute       int
	pUnlim        int
	pData         int
	pAck          int
	pAofFlags     int
	timeouts      []uint16
	expireds      []uint16
	rcounts       []uint8
	maxDelayMs    int
	serial        bool
	memOnly       bool
	twoDbs        bool
	forceFastKeys uint
	pipelines     bool
	noMonitor     bool
	shortDrain    bool
	minuteVals    []uint16 // values used with the minute flag (default 1-2)
	noText        bool     // no text connections (they wait for every reply)
}

func pickU16(r *ssched.Rand, xs []uint16) uint16 { return xs[r.Intn(len(xs))] }
func pickU8(r *ssched.Rand, xs []uint8) uint8    { return xs[r.Intn(len(xs))] }
func between(r *ssched.Rand, ab [2]int) int      { return ab[0] + r.Intn(ab[1]-ab[0]+1) }

func genSched(r *ssched.Rand, seed uint64) SchedCfg {
	sc := SchedCfg{Seed: seed}
	switch x := r.Intn(10); {
	case x < 3:
		sc.Strategy = ssched.StratRTB
	case x < 7:
		sc.Strategy = ssched.StratRP
		sc.Permille = []int{1, 10, 100, 500}[r.Intn(4)]
	default:
		sc.Strategy = ssched.StratPCT
		sc.D = 1 + r.Intn(5)
		sc.Horizon = int64(2000 + r.Intn(40000))
	}
	return sc
}

func genKnobs(r *ssched.Rand) Knobs {
	k := defaultKnobs()
	k.DBConcurrent = uint(1 + r.Intn(4))
	k.DBFastKeyCount = []uint{1, 2, 2, 4, 16, 64}[r.Intn(6)]
	k.DBLockAofTime = uint(r.Intn(3))
	k.AofFileBufferSize = []uint{64, 128, 512, 4096}[r.Intn(4)]
	k.AofQueueSize = []uint{256, 1024, 65536}[r.Intn(3)]
	return k
}

// pipelineOK: PIPELINE value operations are generated only by the C15 scenario kinds (their
// non-sequential behaviour, finding F3, would blur the other properties' oracles).
var pipelineOK = false

func genDataSpec(r *ssched.Rand, uniq *int, depth int) *DataSpec {
	*uniq++
	tag := []byte(fmt.Sprintf("v%d", *uniq))
	switch x := r.Intn(16); {
	case x < 4:
		return &DataSpec{Op: "set", Val: tag}
	case x < 5:
		return &DataSpec{Op: "unset"}
	case x < 8:
		return &DataSpec{Op: "incr", Num: []int64{1, -1, 7, -300, 1 << 40, 9223372036854775807}[r.Intn(6)]}
	case x < 10:
		return &DataSpec{Op: "append", Val: tag}
	case x < 11:
		return &DataSpec{Op: "shift", Num: int64(r.Intn(6))}
	case x < 13:
		return &DataSpec{Op: "push", Val: tag}
	case x < 14:
		return &DataSpec{Op: "pop", Num: int64(r.Intn(3))}
	case x < 15 && depth == 0 && pipelineOK:
		n := 1 + r.Intn(3)
		d := &DataSpec{Op: "pipeline"}
		for i := 0; i < n; i++ {
			d.Pipe = append(d.Pipe, *genDataSpec(r, uniq, depth+1))
		}
		return d
	default:
		return &DataSpec{Op: "set", Val: tag, Prop: []byte("p")}
	}
}

// genMs: millisecond durations below and above the 3000 ms hand-over to the second wheel.
func genMs(r *ssched.Rand) uint16 {
	switch r.Intn(10) {
	case 0, 1, 2, 3, 4:
		return uint16(1 + r.Intn(2999))
	case 5, 6, 7:
		return uint16(3000 + r.Intn(3500))
	case 8:
		return uint16(2990 + r.Intn(20))
	}
	return uint16(6000 + r.Intn(14000))
}

func genCore(prop string, seed uint64, tier string, g genCfg) *Scenario {
	r := ssched.Sub(seed, "gen")
	pipelineOK = g.pipelines
	body := &CoreBody{Serial: g.serial, NKeys: between(r, g.nKeys), NLids: between(r, g.nLids), Profile: g.profile, Dbs: []int{0}, NoMonitor: g.noMonitor, ShortDrain: g.shortDrain}
	if g.twoDbs && r.Intn(3) == 0 {
		body.Dbs = []int{0, 3}
	}
	nc := between(r, g.nClients)
	uniq := 0
	keyCount := make([]uint16, body.NKeys)
	for i := range keyCount {
		keyCount[i] = pickU16(r, g.counts)
	}
	maxE := 0
	for c := 0; c < nc; c++ {
		cs := ClientSpec{Kind: "mem", StartMs: r.Intn(300)}
		if !g.memOnly && r.Intn(3) == 0 {
			cs.Kind = "bin"
			if r.Intn(3) == 0 && !g.noText {
				cs.Kind = "text"
			}
		}
		no := between(r, g.nOps)
		for i := 0; i < no; i++ {
			o := OpSpec{Cmd: 1, Key: r.Intn(body.NKeys), Lid: r.Intn(body.NLids), Db: uint8(body.Dbs[r.Intn(len(body.Dbs))])}
			if g.maxDelayMs > 0 && r.Intn(3) > 0 {
				o.DelayMs = r.Intn(g.maxDelayMs)
			}
			o.Wait = r.Intn(1000) < g.pWait
			if r.Intn(1000) < g.pUnlock {
				o.Cmd = 2
				if r.Intn(1000) < g.pUnlockFirst {
					o.Flag |= protocol.UNLOCK_FLAG_UNLOCK_FIRST_LOCK_WHEN_UNLOCKED
				}
				if r.Intn(1000) < g.pCancel {
					o.Flag |= protocol.UNLOCK_FLAG_CANCEL_WAIT_LOCK_WHEN_UNLOCKED
				}
				o.Rcount = pickU8(r, g.rcounts)
				if r.Intn(1000) < g.pData {
					o.Data = genDataSpec(r, &uniq, 0)
				}
			} else {
				o.Count = pickU16(r, g.counts)
				if g.uniformCount {
					o.Count = keyCount[o.Key]
				}
				o.Rcount = pickU8(r, g.rcounts)
				o.Timeout = pickU16(r, g.timeouts)
				o.Expried = pickU16(r, g.expireds)
				if r.Intn(1000) < g.pMs {
					o.TFlag |= tfMs
					o.Timeout = genMs(r)
				} else if r.Intn(1000) < g.pMinute && o.Timeout > 0 {
					o.TFlag |= tfMinute
					o.Timeout = uint16(1 + r.Intn(2))
					if g.minuteVals != nil {
						o.Timeout = pickU16(r, g.minuteVals)
					}
				}
				if r.Intn(1000) < g.pMs {
					o.EFlag |= efMs
					o.Expried = genMs(r)
					// the unlimited flag together with a unit flag, in one of seven such requests (decided
					// by the value drawn, so that the other draws of the run stay what they were)
					if o.Expried%7 == 0 && g.pUnlim > 0 {
						o.EFlag |= efUnlim
					}
				} else if r.Intn(1000) < g.pMinute {
					o.EFlag |= efMinute
					o.Expried = uint16(1 + r.Intn(2))
					if g.minuteVals != nil {
						o.Expried = pickU16(r, g.minuteVals)
					}
					if (int(o.Expried)+o.Key+o.Lid)%5 == 0 && g.pUnlim > 0 {
						o.EFlag |= efUnlim
					}
				} else if r.Intn(1000) < g.pUnlim {
					o.EFlag |= efUnlim
					if o.Expried == 0 {
						o.Expried = 5
					}
				}
				if r.Intn(1000) < g.pFlagShow {
					o.Flag |= protocol.LOCK_FLAG_SHOW_WHEN_LOCKED
				}
				if r.Intn(1000) < g.pFlagUpdate {
					o.Flag |= protocol.LOCK_FLAG_UPDATE_WHEN_LOCKED
				}
				if r.Intn(1000) < g.pFlagConc {
					o.Flag |= protocol.LOCK_FLAG_CONCURRENT_CHECK
				}
				if r.Intn(1000) < g.pPriority {
					o.TFlag |= tfPriority
					o.Rcount = uint8(r.Intn(4))
				}
				if r.Intn(1000) < g.pWaitUnl {
					o.TFlag |= tfWaitUnl
					// one in three of these asks on a key nobody else ever touches (decided by values
					// already drawn): it waits on a free key, times out, and the key must be gone afterwards
					if (int(o.Timeout)+int(o.Expried)+o.Lid)%3 == 0 && o.Timeout > 0 && o.TFlag&(tfMinute) == 0 {
						o.Key = 150 + len(cs.Ops)%40 + 40*len(body.Clients)
					}
				}
				if r.Intn(1000) < g.pAck {
					o.TFlag |= tfAck
				}
				if r.Intn(1000) < g.pAofFlags {
					o.EFlag |= []uint16{efAof0, efAofNever, efAofPct}[r.Intn(3)]
				}
				if r.Intn(1000) < g.pData {
					o.Data = genDataSpec(r, &uniq, 0)
				}
				e := int(o.Expried)
				if o.EFlag&efMinute != 0 {
					e *= 60
				} else if o.EFlag&efMs != 0 {
					e = e/1000 + 1
				}
				t := int(o.Timeout)
				if o.TFlag&tfMinute != 0 {
					t *= 60
				} else if o.TFlag&tfMs != 0 {
					t = t/1000 + 1
				}
				if o.EFlag&efUnlim == 0 && e+t > maxE {
					maxE = e + t
				}
			}
			cs.Ops = append(cs.Ops, o)
		}
		body.Clients = append(body.Clients, cs)
	}
	if g.profile == "huge-terms" {
		// millisecond timeouts at the top of the 16-bit range (64537-65535 ms: sums with them overflow 16 bits);
		// a draw stream of its own
		tm := ssched.Sub(seed, "topms")
		for ci := range body.Clients {
			for oi := range body.Clients[ci].Ops {
				if o := &body.Clients[ci].Ops[oi]; o.Cmd == 1 && o.Timeout > 0 && tm.Intn(6) == 0 {
					o.TFlag = (o.TFlag &^ tfMinute) | tfMs
					o.Timeout = uint16(64537 + tm.Intn(999))
				}
			}
		}
	}
	if g.pipelines || g.profile == "values-serial" {
		// INCR operands of other lengths than 8 bytes (the server reads up to 8 little-endian bytes of whatever
		// is there): a draw stream of its own, so that the requests generated above stay what they were
		rs := ssched.Sub(seed, "incrlen")
		var short func(d *DataSpec)
		short = func(d *DataSpec) {
			if d == nil {
				return
			}
			if d.Op == "incr" && rs.Intn(3) == 0 {
				d.Short = []int{1, 2, 3, 4, 7, 12}[rs.Intn(6)]
				if d.Num < 0 {
					d.Num = -d.Num
				}
			}
			for i := range d.Pipe {
				short(&d.Pipe[i])
			}
		}
		for ci := range body.Clients {
			if body.Clients[ci].Kind == "text" { // a text command line carries the number itself
				continue
			}
			for oi := range body.Clients[ci].Ops {
				short(body.Clients[ci].Ops[oi].Data)
			}
		}
		// the data flag 0x20 ("first or last") on value operations carried by lock requests (first locks,
		// further levels, updates, requests granted from the queue); again a draw stream of its own
		fl := ssched.Sub(seed, "firstlast")
		for ci := range body.Clients {
			if body.Clients[ci].Kind == "text" {
				continue
			}
			for oi := range body.Clients[ci].Ops {
				if o := &body.Clients[ci].Ops[oi]; o.Cmd == 1 && o.Data != nil && o.Data.Op != "pipeline" && fl.Intn(4) == 0 {
					o.Data.FirstLast = true
				}
			}
		}
	}
	raw, _ := json.Marshal(body)
	sc := &Scenario{Knobs: genKnobs(r), Sched: genSched(r, seed), Body: raw, MaxSimS: 4*maxE + 700}
	if g.shortDrain {
		sc.MaxSimS = 3000
	}
	if g.forceFastKeys > 0 {
		sc.Knobs.DBFastKeyCount = g.forceFastKeys
		if sc.Sched.Strategy == ssched.StratRTB {
			sc.Sched.Strategy, sc.Sched.Permille = ssched.StratRP, 100
		}
	}
	if !g.memOnly {
		sc.Net.FragPermil = []int{0, 0, 300, 900}[r.Intn(4)]
		sc.Net.LatencyUs = []int{0, 0, 200, 5000}[r.Intn(4)]
		sc.Net.JitterUs = []int{0, 100, 3000}[r.Intn(3)]
	}
	return sc
}

// ---------------------------------------------------------------------------------------------
// runner

type coreRun struct {
	w       *World
	body    *CoreBody
	node    *Node
	h       *History
	clients []Client
	done    int
	mon     *Monitor
	model   *Model
	drained bool
	ms      *monitorState
	texts   []*textClient
}

func (cr *coreRun) clientTask(ci int, cs ClientSpec) {
	w := cr.w
	defer func() { cr.done++ }()
	sleep(time.Duration(cs.StartMs) * time.Millisecond)
	var c Client
	switch cs.Kind {
	case "bin":
		bc, err := newBinClient(w, cr.h, cr.node.addr, ci)
		if err != nil {
			w.harnessErr("client %d dial: %v", ci, err)
			return
		}
		c = bc
	case "text":
		tc, err := newTextClient(w, cr.h, cr.node.addr, ci)
		if err != nil {
			w.harnessErr("client %d dial: %v", ci, err)
			return
		}
		c = tc
		ssched.NoPreempt(func() { cr.texts = append(cr.texts, tc) })
	default:
		c = newMemClient(w, cr.h, cr.node, ci)
	}
	cr.clients[ci] = c
	curDb := uint8(0)
	for i, op := range cs.Ops {
		if tc, ok := c.(*textClient); ok {
			textable(&op)
			if op.Db != curDb {
				if v, ok := tc.Do("SELECT", fmt.Sprint(op.Db)); !ok || v.Kind != '+' {
					w.violate("C03", "text_select_failed", "text client %d: SELECT %d answered %s", ci, op.Db, v)
					return
				}
				curDb = op.Db
			}
		}
		if op.DelayMs > 0 {
			sleep(time.Duration(op.DelayMs) * time.Millisecond)
		}
		r := cr.h.invoke(ci, i, op)
		if err := c.Send(r); err != nil {
			w.logf("client %d send error %v", ci, err)
			r.lost = true
			return
		}
		if (op.Wait && !cr.body.Serial) || cs.Kind == "text" {
			if cr.body.NoMonitor {
				// without the monitor nobody recognises finding F8 (the reply went out under another
				// request's id) while the run goes on: the client gives up after a long while
				waitReply(r, timeoutDur(&op)+expiryDur(op.Expried, op.EFlag)+300*time.Second)
			} else if cs.Kind == "text" {
				// a text connection drops the reply that finding F8 builds from a recycled command object (its
				// RequestId test fails): no stray reply shows up anywhere. A text request that is in the F8
				// window (granted, its hold ended or taken over by another request before the reply was built)
				// and has not been answered well after its timeout is booked as such a reply
				limit := timeoutDur(&op) + 10*time.Second
				for waited := time.Duration(0); ; waited += time.Second {
					if waitReply(r, time.Second) {
						break
					}
					if waited >= limit && cr.h.atRisk != nil {
						if g := cr.h.atRisk(ci); g == r {
							ssched.NoPreempt(func() {
								r.excused = true
								cr.h.stray = append(cr.h.stray, Reply{Conn: r.Client, Recycled: true, Result: 0, StrayRid: r.Id, T: w.now(), Ev: cr.h.nextEv()})
								r.finish()
							})
							w.probe("reply_from_recycled_command")
							w.logf("R dropped: the reply to text request c%d#%d was built from a recycled command object and dropped by the connection (finding F8)", r.Client, r.Idx)
							break
						}
					}
				}
			} else {
				<-r.done
			}
			if r.excused && cs.Kind == "text" {
				// finding F8 on a text connection: the reply built from the recycled command object was
				// dropped by the connection's RequestId test, the server side waits for it for good and
				// answers nothing any more: the client gives the connection up
				w.probe("text_connection_given_up_after_f8")
				return
			}
		}
	}
}

func runCore(w *World) {
	body := &CoreBody{}
	if err := json.Unmarshal(w.sc.Body, body); err != nil {
		w.harnessErr("bad body: %v", err)
		return
	}
	cr := &coreRun{w: w, body: body, h: newHistory(w)}
	cr.node = w.boot(1, w.mkcfg(1, "", ""))
	cr.clients = make([]Client, len(body.Clients))
	phase := 0
	end := w.S.Loop(func() bool {
		switch phase {
		case 0:
			if cr.node.err != nil {
				w.harnessErr("boot failed: %v", cr.node.err)
				return true
			}
			if cr.node.ready {
				phase = 10
				ssched.SpawnOn(1, "mkdbs", func() {
					for _, db := range body.Dbs {
						cr.node.sl.GetOrNewDB(uint8(db))
					}
					ssched.NoPreempt(cr.attach)
					phase = 11
				})
			}
		case 11:
			phase = 1
			for ci, cs := range body.Clients {
				ci, cs := ci, cs
				ssched.SpawnOn(0, fmt.Sprintf("client%d", ci), func() { cr.clientTask(ci, cs) })
			}
		case 1:
			if cr.done == len(body.Clients) {
				phase = 2
				cr.startDrain()
			}
		case 2:
			if cr.drained && w.S.ReadyLen() == 0 {
				phase = 3
				return true
			}
		}
		if len(w.S.Panics) > 0 {
			p := w.S.Panics[0]
			w.violate(w.sc.Prop, "server_crash@"+panicSite(p.Stack), "a server goroutine panicked (the real process would die): %s in task %s; with the server dead the property cannot hold", p.Value, p.Task)
			return true
		}
		return len(w.res.Violations) > 0 && phase > 0 && w.S.ReadyLen() == 0
	}, time.Duration(w.sc.MaxSimS)*time.Second)
	w.res.LoopEnd = end
	if end != "done" && w.res.HarnessErr == "" && len(w.res.Violations) == 0 {
		dumpStacks()
		for _, tc := range cr.texts {
			if p := tc.serverProto(cr.node); p != nil {
				w.logf("TEXTSTATE c%d sent=%d got=%d cur=%v raw=%v parser=%+v pending_in=%d pending_srv=%d", tc.id, tc.sent, tc.got, tc.cur != nil, tc.rawWait != nil, *p.parser, tc.conn.Pending(), tc.conn.Peer.Pending())
			}
		}
		w.harnessErr("run did not finish: loop ended with %q in phase %d (done=%d/%d)", end, phase, cr.done, len(body.Clients))
	}
	if phase == 3 && len(w.res.Violations) == 0 && w.res.HarnessErr == "" {
		cr.finalChecks()
	}
	if cr.ms != nil {
		cr.ms.finish()
	}
	cr.summarise()
}

// startDrain: stop issuing work and let everything end. Holds with unlimited expiry would never
// end by themselves, so a clean-up client unlocks them (Rcount 0: all depths) — repeatedly,
// because a queued request with unlimited expiry may still be granted during the drain. The
// drain is over when no hold and no live waiter remains, plus a few seconds of sweep slack.
func (cr *coreRun) startDrain() {
	w := cr.w
	w.logf("DRAIN start t=%s", w.simT())
	type kl struct {
		db  uint8
		key [16]byte
		lid [16]byte
	}
	ci := len(cr.clients)
	cr.clients = append(cr.clients, nil)
	drainStart := w.now()
	stuckSeen := map[*LockManager]bool{}
	ssched.SpawnOn(0, "drainclient", func() {
		c := newMemClient(w, cr.h, cr.node, ci)
		cr.clients[ci] = c
		idx := 0
		for {
			var todo, cancels []kl
			busy := false
			ssched.NoPreempt(func() {
				for _, r := range cr.h.order {
					if r.Sent && !r.lost && len(r.Replies) == 0 && w.now().Sub(r.InvT) < 300*time.Second {
						busy = true // still in flight (network latency) or queued
					}
				}
				for dbi, db := range cr.node.sl.dbs {
					if db == nil {
						continue
					}
					for _, m := range allManagers(db) {
						hs := holdersOf(m)
						stuck := 0
						for _, l := range hs {
							if l.ackCount != 0xff && w.now().Sub(drainStart) > 90*time.Second {
								stuck++
							}
						}
						if stuck > 0 && stuck == len(hs) && len(waitersOf(m)) == 0 {
							if !stuckSeen[m] {
								stuckSeen[m] = true
								w.violate("C03", "ack_hold_stuck", "key %x db %d: a hold that awaits its acknowledgement is still pending 90 s after the last request was sent: its requester is never answered and the hold never ends", m.lockKey, dbi)
							}
							continue
						}
						if len(hs) > 0 || len(waitersOf(m)) > 0 {
							busy = true
						}
						for _, l := range hs {
							if l.command != nil && l.command.ExpriedFlag&efUnlim != 0 && l.ackCount == 0xff {
								todo = append(todo, kl{uint8(dbi), m.lockKey, l.command.LockId})
							} else if cr.body.ShortDrain && l.command != nil && l.ackCount == 0xff && l.expriedTime-db.currentTime > 20 {
								todo = append(todo, kl{uint8(dbi), m.lockKey, l.command.LockId})
							}
						}
						if cr.body.ShortDrain {
							for _, l := range waitersOf(m) {
								if l.command != nil && l.timeoutTime-db.currentTime > 20 {
									cancels = append(cancels, kl{uint8(dbi), m.lockKey, l.command.LockId})
								}
							}
						}
					}
				}
			})
			if !busy {
				break
			}
			for _, t := range todo {
				op := OpSpec{Cmd: 2, Db: t.db, Key: keyIndex(t.key), Lid: lidIndex(t.lid), Rcount: 0, Wait: true}
				r := cr.h.invoke(ci, idx, op)
				idx++
				_ = c.Send(r)
				<-r.done
			}
			for _, t := range cancels {
				op := OpSpec{Cmd: 2, Db: t.db, Key: keyIndex(t.key), Lid: lidIndex(t.lid), Flag: protocol.UNLOCK_FLAG_CANCEL_WAIT_LOCK_WHEN_UNLOCKED, Rcount: 0, Wait: true}
				r := cr.h.invoke(ci, idx, op)
				idx++
				_ = c.Send(r)
				<-r.done
			}
			sleep(time.Second)
		}
		// past every re-check horizon: a finished request's record may stay on a timeout/expiry
		// wheel or long-wait table until its original deadline (entries are discarded lazily)
		horizon := w.now().Add(6 * time.Second)
		for _, r := range cr.h.order {
			if r.Op.Cmd != protocol.COMMAND_LOCK {
				continue
			}
			t := r.InvT.Add(timeoutDur(&r.Op) + 12*time.Second)
			if r.Op.EFlag&efUnlim == 0 {
				t = t.Add(expiryDur(r.Op.Expried, r.Op.EFlag))
			}
			for _, rep := range r.Replies {
				if rep.Result == protocol.RESULT_SUCCED && r.Op.EFlag&efUnlim == 0 {
					if t2 := rep.T.Add(expiryDur(r.Op.Expried, r.Op.EFlag) + 12*time.Second); t2.After(t) {
						t = t2
					}
				}
			}
			if t.After(horizon) {
				horizon = t
			}
		}
		if d := horizon.Sub(w.now()); d > 0 {
			if cr.body.ShortDrain && d > 400*time.Second {
				d = 400 * time.Second
			}
			sleep(d)
		}
		w.logf("DRAIN done t=%s", w.simT())
		cr.drained = true
	})
}

func (cr *coreRun) summarise() {
	w := cr.w
	granted, waited, timeouts, expired := 0, 0, 0, 0
	for _, r := range cr.h.order {
		for i, rep := range r.Replies {
			if i == 0 && r.Op.Cmd == 1 && rep.Result == protocol.RESULT_SUCCED {
				granted++
				if rep.Ev-r.InvEv > 1 && rep.Step != r.InvStep && rep.T.Sub(r.InvT) > 0 {
					waited++
				}
			}
			if rep.Result == protocol.RESULT_TIMEOUT {
				timeouts++
			}
			if rep.Result == protocol.RESULT_EXPRIED {
				expired++
			}
		}
	}
	w.res.Probes["requests"] = len(cr.h.order)
	w.res.Probes["granted"] = granted
	w.res.Probes["granted_after_wait"] = waited
	w.res.Probes["timeouts"] = timeouts
	w.res.Probes["expiries"] = expired
	w.res.Nontrivial = granted >= 2 && (waited > 0 || timeouts > 0 || expired > 0)
}

// genDeepReentry: one LockId takes one key again and again (Rcount 255, 254 or a small bound) up to
// and past the depth its Rcount allows and past 255, then gives levels back one by one and all at
// once; a second LockId joins and probes in between (C02, C17).
func genDeepReentry(prop string, seed uint64, tier string) *Scenario {
	r := ssched.Sub(seed, "gen")
	body := &CoreBody{NKeys: 1, NLids: 3, Profile: "deep-reentry", Dbs: []int{0}, Serial: true}
	rc := []uint8{255, 255, 254, 200, 17}[r.Intn(5)]
	n := int(rc) + 1 + r.Intn(8)
	if n > 262 {
		n = 262
	}
	cnt := []uint16{0, 3, 0xffff}[r.Intn(3)]
	var ops []OpSpec
	for i := 0; i < n; i++ {
		ops = append(ops, OpSpec{Cmd: 1, Key: 0, Lid: 0, Count: cnt, Rcount: rc, Expried: 120, DelayMs: r.Intn(2)})
		if r.Intn(40) == 0 {
			ops = append(ops, OpSpec{Cmd: 1, Key: 0, Lid: 1, Count: cnt, Rcount: 0, Expried: 30}) // another LockId: admitted only if Count allows
			ops = append(ops, OpSpec{Cmd: 2, Key: 0, Lid: 1})
		}
	}
	back := r.Intn(n)
	for i := 0; i < back; i++ {
		ops = append(ops, OpSpec{Cmd: 2, Key: 0, Lid: 0, Rcount: 1, DelayMs: r.Intn(2)})
		if r.Intn(30) == 0 {
			ops = append(ops, OpSpec{Cmd: 1, Key: 0, Lid: 0, Count: cnt, Rcount: rc, Expried: 120}) // up again
		}
	}
	ops = append(ops, OpSpec{Cmd: 2, Key: 0, Lid: 0, Rcount: 0})
	ops = append(ops, OpSpec{Cmd: 2, Key: 0, Lid: 0, Rcount: 0}) // nothing left: refused
	ops = append(ops, OpSpec{Cmd: 1, Key: 0, Lid: 2, Count: 0, Rcount: 0, Expried: 2})
	body.Clients = []ClientSpec{{Kind: "mem", StartMs: 50, Ops: ops}}
	raw, _ := json.Marshal(body)
	return &Scenario{Knobs: genKnobs(r), Sched: genSched(r, seed), Body: raw, MaxSimS: 1500}
}

// genFullCount: the capacity bound at the upper end of a key's Count c: LockIds that are each up to 255
// levels deep fill the key to exactly c+1 outstanding holds, further LockIds ask with the same Count
// (they must be refused), one level is released and taken again by a newcomer, then everything is
// released. c is a mid-range value or, in one run of 25, 0xffff itself (65536 holds: a long run).
func genFullCount(prop string, seed uint64, tier string) *Scenario {
	r := ssched.Sub(seed, "gen")
	c := []int{254, 255, 256, 509, 510, 1000, 4000}[r.Intn(7)]
	if r.Intn(25) == 0 {
		c = 0xffff
	}
	full, rest := (c+1)/255, (c+1)%255
	nl := full
	if rest > 0 {
		nl++
	}
	body := &CoreBody{NKeys: 1, NLids: nl + 4, Profile: "full-count", Dbs: []int{0}, Serial: true}
	var ops []OpSpec
	lock := func(l int) { ops = append(ops, OpSpec{Cmd: 1, Key: 0, Lid: l, Count: uint16(c), Rcount: 0xff, Expried: 900}) }
	for l := 0; l < nl; l++ {
		d := 255
		if l == full {
			d = rest
		}
		for i := 0; i < d; i++ {
			lock(l)
		}
	}
	for l := nl; l < nl+3; l++ { // the key is full: c+1 holds outstanding
		lock(l)
	}
	ops = append(ops, OpSpec{Cmd: 2, Key: 0, Lid: 0, Rcount: 1}) // one level less: room for exactly one newcomer
	lock(nl)
	lock(nl + 1)
	for l := 0; l < nl+3; l++ {
		ops = append(ops, OpSpec{Cmd: 2, Key: 0, Lid: l, Rcount: 0})
	}
	body.Clients = []ClientSpec{{Kind: "mem", StartMs: 50, Ops: ops}}
	raw, _ := json.Marshal(body)
	return &Scenario{Knobs: genKnobs(r), Sched: genSched(r, seed), Body: raw, MaxSimS: 3000}
}

// genMsHandover: a request queues with a millisecond timeout of 3000a+b ms (it waits b ms in the
// millisecond wheel and is then handed to the second wheel) and is granted or cancelled at a chosen
// moment around the hand-over; afterwards nothing more may happen to it until its hold is released
// (C05: never after a grant).
func genMsHandover(prop string, seed uint64, tier string) *Scenario {
	r := ssched.Sub(seed, "gen")
	body := &CoreBody{NKeys: 3, NLids: 6, Profile: "ms-handover", Dbs: []int{0}}
	var ops []OpSpec
	t := 0
	for key := 0; key < 3; key++ {
		a, b := 1+r.Intn(2), 150+r.Intn(2700)
		T := 3000*a + b
		ops = append(ops, OpSpec{Cmd: 1, Key: key, Lid: 0, Count: 0, Expried: 900, Wait: true, DelayMs: 5})
		ops = append(ops, OpSpec{Cmd: 1, Key: key, Lid: 1, Count: 0, Timeout: uint16(T), TFlag: tfMs, Expried: 30, DelayMs: 5})
		at := []int{b / 2, b - 20 - r.Intn(60), b + 20 + r.Intn(200), 3000 + r.Intn(b)}[r.Intn(4)]
		if at < 10 {
			at = 10
		}
		if r.Intn(3) == 0 {
			ops = append(ops, OpSpec{Cmd: 2, Key: key, Lid: 1, Flag: protocol.UNLOCK_FLAG_CANCEL_WAIT_LOCK_WHEN_UNLOCKED, DelayMs: at, Wait: true})
		} else {
			ops = append(ops, OpSpec{Cmd: 2, Key: key, Lid: 0, DelayMs: at, Wait: true})
		}
		t += at
		_ = T
	}
	// well past every deadline, then release what is held
	ops = append(ops, OpSpec{Cmd: 2, Key: 0, Lid: 1, DelayMs: 12000, Wait: true})
	for key := 0; key < 3; key++ {
		ops = append(ops, OpSpec{Cmd: 2, Key: key, Lid: 1, DelayMs: 5, Wait: true})
		ops = append(ops, OpSpec{Cmd: 2, Key: key, Lid: 0, DelayMs: 5, Wait: true})
	}
	body.Clients = []ClientSpec{{Kind: "mem", StartMs: 50, Ops: ops}}
	raw, _ := json.Marshal(body)
	return &Scenario{Knobs: genKnobs(r), Sched: genSched(r, seed), Body: raw, MaxSimS: 3000}
}

// genLongWaiters: behind an exclusive holder 3-12 requests queue within one second with the same long
// timeout (45-70 s: they move to the long-term timeout table of their deadline second); shortly before
// the deadline the holder unlocks (the first of them is granted) or one of them is cancelled; the
// others must still be answered TIMEOUT within their window (C05).
func genLongWaiters(prop string, seed uint64, tier string) *Scenario {
	r := ssched.Sub(seed, "gen")
	k := 3 + r.Intn(10)
	T := 45 + r.Intn(26)
	body := &CoreBody{NKeys: 2, NLids: k + 3, Profile: "long-waiters", Dbs: []int{0}}
	var ops []OpSpec
	ops = append(ops, OpSpec{Cmd: 1, Key: 0, Lid: 0, Count: 0, Expried: 900, Wait: true})
	for i := 1; i <= k; i++ {
		ops = append(ops, OpSpec{Cmd: 1, Key: 0, Lid: i, Count: 0, Timeout: uint16(T), Expried: 5, DelayMs: r.Intn(60)})
	}
	at := (T-1-r.Intn(4))*1000 - r.Intn(900) // 1-5 s before the deadline, after the move at about +44 s
	if at < 44500 {
		at = 44500 + r.Intn(400)
	}
	switch r.Intn(3) {
	case 0:
		ops = append(ops, OpSpec{Cmd: 2, Key: 0, Lid: 0, DelayMs: at, Wait: true})
	case 1:
		ops = append(ops, OpSpec{Cmd: 2, Key: 0, Lid: 1 + r.Intn(k), Flag: protocol.UNLOCK_FLAG_CANCEL_WAIT_LOCK_WHEN_UNLOCKED, DelayMs: at, Wait: true})
	default:
		ops = append(ops, OpSpec{Cmd: 2, Key: 0, Lid: 1 + r.Intn(k), Flag: protocol.UNLOCK_FLAG_CANCEL_WAIT_LOCK_WHEN_UNLOCKED, DelayMs: at, Wait: true})
		ops = append(ops, OpSpec{Cmd: 2, Key: 0, Lid: 0, DelayMs: 100 + r.Intn(800), Wait: true})
	}
	ops = append(ops, OpSpec{Cmd: 2, Key: 0, Lid: 0, DelayMs: 12000, Wait: true}) // release what is still held
	ops = append(ops, OpSpec{Cmd: 2, Key: 0, Lid: 1, DelayMs: 10, Wait: true})
	body.Clients = []ClientSpec{{Kind: "mem", StartMs: 50, Ops: ops}}
	raw, _ := json.Marshal(body)
	return &Scenario{Knobs: genKnobs(r), Sched: genSched(r, seed), Body: raw, MaxSimS: 3000}
}

// genLongTable: 10-60 keys each taken once with the persist-immediately flag and an expiry of 8-30 s
// (such holds go straight to the long-term expiry table of their shard and second), all within a
// second or two; then some of the holds are updated to another expiry of the same small set, so that
// a hold moves between table entries that other holds occupy. Nothing is unlocked: every hold must
// end by expiry within its window (C06).
func genLongTable(prop string, seed uint64, tier string) *Scenario {
	r := ssched.Sub(seed, "gen")
	n := 10 + r.Intn(50)
	set := []uint16{8, 12, 20, 30}
	if r.Intn(3) == 0 {
		set = []uint16{6, 7, 9}
	}
	body := &CoreBody{NKeys: n, NLids: 1, Profile: "long-table", Dbs: []int{0}}
	var ops []OpSpec
	ex := make([]uint16, n)
	for i := 0; i < n; i++ {
		ex[i] = set[r.Intn(len(set))]
		ops = append(ops, OpSpec{Cmd: 1, Key: i, Lid: 0, Count: 0, Expried: ex[i], EFlag: efAof0, DelayMs: r.Intn(3)})
	}
	nu := 3 + r.Intn(n/2+1)
	for j := 0; j < nu; j++ {
		i := r.Intn(n)
		e2 := set[r.Intn(len(set))]
		o := OpSpec{Cmd: 1, Key: i, Lid: 0, Flag: protocol.LOCK_FLAG_UPDATE_WHEN_LOCKED, Count: 0, Expried: e2, EFlag: efAof0, DelayMs: r.Intn(4)}
		if r.Intn(4) == 0 {
			o.DelayMs = 200 + r.Intn(1500)
		}
		ops = append(ops, o)
	}
	body.Clients = []ClientSpec{{Kind: "mem", StartMs: 50, Ops: ops}}
	raw, _ := json.Marshal(body)
	k := genKnobs(r)
	return &Scenario{Knobs: k, Sched: genSched(r, seed), Body: raw, MaxSimS: 3000}
}

// genKeyReuse: keys that all share the one fast-key slot (so all but one live in the key map) are taken
// with a value each, released or left to expire, and reclaimed; 15-40 s later a second client takes
// 20-60 keys nobody has used: they are served by the key managers the first ones gave back, and must
// start without a value (C17: the keys' values are gone).
func genKeyReuse(prop string, seed uint64, tier string) *Scenario {
	r := ssched.Sub(seed, "gen")
	n1, n2 := 2+r.Intn(8), 20+r.Intn(40)
	body := &CoreBody{NKeys: n1 + n2, NLids: 2, Profile: "key-reuse", Dbs: []int{0}}
	uniq := 0
	var a, b []OpSpec
	for i := 0; i < n1; i++ {
		uniq++
		a = append(a, OpSpec{Cmd: 1, Key: i, Lid: 0, Count: 0, Expried: uint16(1 + r.Intn(3)), DelayMs: r.Intn(30), Wait: true,
			Data: &DataSpec{Op: "set", Val: []byte(fmt.Sprintf("r%d", uniq))}})
	}
	for i := 0; i < n1; i++ {
		if r.Intn(2) == 0 {
			a = append(a, OpSpec{Cmd: 2, Key: i, Lid: 0, DelayMs: r.Intn(200), Wait: true})
		}
	}
	for i := 0; i < n2; i++ {
		o := OpSpec{Cmd: 1, Key: n1 + i, Lid: 1, Count: 0, Expried: 1, DelayMs: r.Intn(40), Wait: true}
		if r.Intn(4) == 0 {
			o.Expried = 0
		}
		b = append(b, o)
	}
	body.Clients = []ClientSpec{{Kind: "mem", StartMs: 50, Ops: a}, {Kind: "mem", StartMs: 15000 + r.Intn(25000), Ops: b}}
	raw, _ := json.Marshal(body)
	k := genKnobs(r)
	k.DBFastKeyCount = 1
	if r.Intn(3) == 0 {
		k.DBFastKeyCount = 2
	}
	return &Scenario{Knobs: k, Sched: genSched(r, seed), Body: raw, MaxSimS: 3000}
}

// genLongHoles: 300-900 keys, each taken once with the persist-immediately flag and one common expiry
// of 12-30 s, all within about a second on a single shard: they share one entry of the long-term
// expiry table. Then most of them (at least 256, in seeded order) are unlocked or updated to another
// expiry, which leaves holes in the entry until the server rebuilds it around the survivors; every
// survivor must still end by expiry within its window (C06).
func genLongHoles(prop string, seed uint64, tier string) *Scenario {
	r := ssched.Sub(seed, "gen")
	n := 300 + r.Intn(600)
	E := uint16(12 + r.Intn(19))
	body := &CoreBody{NKeys: n, NLids: 1, Profile: "long-holes", Dbs: []int{0}}
	var ops []OpSpec
	for i := 0; i < n; i++ {
		ops = append(ops, OpSpec{Cmd: 1, Key: i, Lid: 0, Count: 0, Expried: E, EFlag: efAof0})
	}
	perm := make([]int, n)
	for i := range perm {
		perm[i] = i
	}
	for i := n - 1; i > 0; i-- {
		j := r.Intn(i + 1)
		perm[i], perm[j] = perm[j], perm[i]
	}
	gone := 256 + r.Intn(n-256-10)
	first := true
	for _, i := range perm[:gone] {
		o := OpSpec{Cmd: 2, Key: i, Lid: 0}
		if r.Intn(6) == 0 {
			o = OpSpec{Cmd: 1, Key: i, Lid: 0, Flag: protocol.LOCK_FLAG_UPDATE_WHEN_LOCKED, Count: 0, Expried: E + uint16(3+r.Intn(6)), EFlag: efAof0}
		}
		if first {
			o.DelayMs, first = 1500+r.Intn(4000), false
		} else if r.Intn(40) == 0 {
			o.DelayMs = r.Intn(300)
		}
		ops = append(ops, o)
	}
	body.Clients = []ClientSpec{{Kind: "mem", StartMs: 50, Ops: ops}}
	raw, _ := json.Marshal(body)
	k := genKnobs(r)
	k.DBConcurrent = 1
	return &Scenario{Knobs: k, Sched: genSched(r, seed), Body: raw, MaxSimS: 3000}
}

// genWaitHoles: behind an exclusive holder 300-700 requests queue within one second with the same long
// timeout (46-60 s: they share one entry of the long-term timeout table once they have moved there);
// about a second before the deadline most of them (at least 256) are cancelled, which leaves holes in
// the entry until the server rebuilds it around the survivors; every survivor must still be answered
// TIMEOUT within its window (C05).
func genWaitHoles(prop string, seed uint64, tier string) *Scenario {
	r := ssched.Sub(seed, "gen")
	n := 300 + r.Intn(400)
	T := 46 + r.Intn(15)
	body := &CoreBody{NKeys: 1, NLids: n + 2, Profile: "wait-holes", Dbs: []int{0}}
	var ops []OpSpec
	ops = append(ops, OpSpec{Cmd: 1, Key: 0, Lid: 0, Count: 0, Expried: 900, Wait: true})
	for i := 1; i <= n; i++ {
		ops = append(ops, OpSpec{Cmd: 1, Key: 0, Lid: i, Count: 0, Timeout: uint16(T), Expried: 5})
	}
	perm := make([]int, n)
	for i := range perm {
		perm[i] = i + 1
	}
	for i := n - 1; i > 0; i-- {
		j := r.Intn(i + 1)
		perm[i], perm[j] = perm[j], perm[i]
	}
	gone := 256 + r.Intn(n-256-10)
	for x, l := range perm[:gone] {
		o := OpSpec{Cmd: 2, Key: 0, Lid: l, Flag: protocol.UNLOCK_FLAG_CANCEL_WAIT_LOCK_WHEN_UNLOCKED}
		if x == 0 {
			o.DelayMs = 44600 + r.Intn(T*1000-44600-1500)
		}
		ops = append(ops, o)
	}
	ops = append(ops, OpSpec{Cmd: 2, Key: 0, Lid: 0, DelayMs: 20000, Wait: true}) // release what is still held
	body.Clients = []ClientSpec{{Kind: "mem", StartMs: 50, Ops: ops}}
	raw, _ := json.Marshal(body)
	return &Scenario{Knobs: genKnobs(r), Sched: genSched(r, seed), Body: raw, MaxSimS: 3000}
}

// genTickRace: 3-8 keys, each with a client of its own (in-memory: no transport delay) that takes the key
// on a full second with a term of 1-3 s and sends its next request exactly on the second in which the
// server's sweeper picks that hold up (or one second earlier): an update or re-lock to terms of another
// kind (seconds, milliseconds, minutes, unlimited, unlimited with a unit flag), or an unlock. Whether the
// request or the sweeper comes first is the scheduler's choice; either way the hold ends by its new terms
// or by the unlock, never by the old deadline once it has been renewed (C06).
func genTickRace(prop string, seed uint64, tier string) *Scenario {
	r := ssched.Sub(seed, "gen")
	n := 3 + r.Intn(6)
	body := &CoreBody{NKeys: n, NLids: 2, Profile: "tick-race", Dbs: []int{0}}
	for i := 0; i < n; i++ {
		if wm := ssched.Sub(seed, fmt.Sprintf("tickwait%d", i)); wm.Intn(3) == 0 {
			// the same for a queued request: the key is held for long, a request with a timeout of 1-3 s
			// queues on a full second, and exactly on the second in which its timeout is due (or one
			// earlier) the holder unlocks, the request is cancelled, or the holder renews its terms:
			// granted or timed out, never both, never neither (C05, C04)
			T := 1 + wm.Intn(3)
			at := (T + 1) * 1000
			if wm.Intn(4) == 0 {
				at -= 1000
			}
			holder := []OpSpec{{Cmd: 1, Key: i, Lid: 0, Count: 0, Rcount: 3, Expried: 600}}
			switch wm.Intn(3) {
			case 0:
				holder = append(holder, OpSpec{Cmd: 2, Key: i, Lid: 0, DelayMs: at})
			case 1:
				holder = append(holder, OpSpec{Cmd: 2, Key: i, Lid: 1, Flag: protocol.UNLOCK_FLAG_CANCEL_WAIT_LOCK_WHEN_UNLOCKED, DelayMs: at})
			default:
				holder = append(holder, OpSpec{Cmd: 1, Key: i, Lid: 0, Flag: protocol.LOCK_FLAG_UPDATE_WHEN_LOCKED, Count: 1, Rcount: 3, Expried: 600, DelayMs: at})
			}
			holder = append(holder, OpSpec{Cmd: 2, Key: i, Lid: 0, DelayMs: 9000, Wait: true})
			start := 1000 * (1 + wm.Intn(2))
			body.Clients = append(body.Clients, ClientSpec{Kind: "mem", StartMs: start, Ops: holder})
			wt := OpSpec{Cmd: 1, Key: i, Lid: 1, Count: uint16(wm.Intn(2)), Timeout: uint16(T), Expried: 2}
			if wm.Intn(4) == 0 {
				wt.Timeout, wt.TFlag = uint16(T*1000), tfMs
			}
			body.Clients = append(body.Clients, ClientSpec{Kind: "mem", StartMs: start, Ops: []OpSpec{wt}})
			continue
		}
		E := 1 + r.Intn(3)
		ops := []OpSpec{{Cmd: 1, Key: i, Lid: 0, Count: 0, Rcount: 3, Expried: uint16(E)}}
		at := (E + 1) * 1000
		if r.Intn(4) == 0 {
			at -= 1000
		}
		var o OpSpec
		switch r.Intn(8) {
		case 0:
			o = OpSpec{Cmd: 2, Key: i, Lid: 0}
		case 1:
			o = OpSpec{Cmd: 1, Key: i, Lid: 0, Count: 0, Rcount: 3, Expried: uint16(2 + r.Intn(4))} // a further level, new term
		default:
			o = OpSpec{Cmd: 1, Key: i, Lid: 0, Flag: protocol.LOCK_FLAG_UPDATE_WHEN_LOCKED, Count: 0, Rcount: 3}
			switch r.Intn(6) {
			case 0:
				o.Expried = uint16(2 + r.Intn(5))
			case 1:
				o.Expried, o.EFlag = uint16(500+r.Intn(6000)), efMs
			case 2:
				o.Expried, o.EFlag = 1, efMinute
			case 3:
				o.Expried, o.EFlag = uint16(r.Intn(9)), efUnlim
			case 4:
				o.Expried, o.EFlag = uint16(500+r.Intn(20000)), efUnlim|efMs
			default:
				o.Expried, o.EFlag = uint16(1+r.Intn(3)), efUnlim|efMinute
			}
		}
		o.DelayMs = at
		ops = append(ops, o)
		if r.Intn(3) == 0 {
			// somebody waits for the key meanwhile
			ops = append(ops, OpSpec{Cmd: 1, Key: i, Lid: 1, Count: 0, Timeout: uint16(1 + r.Intn(6)), Expried: 1, DelayMs: 0})
		}
		body.Clients = append(body.Clients, ClientSpec{Kind: "mem", StartMs: 1000 * (1 + r.Intn(2)), Ops: ops})
	}
	raw, _ := json.Marshal(body)
	return &Scenario{Knobs: genKnobs(r), Sched: genSched(r, seed), Body: raw, MaxSimS: 3000}
}

// genQueueMigrate: one exclusive key; behind its holder 150-300 plain requests queue one after the
// other (the queue spills from its inline slots into the ring), then one or two requests with the
// priority flag arrive (the queue is rebuilt as a priority ring), then the key is released again
// and again: the priority requests first, then the plain ones in arrival order (C04).
func genQueueMigrate(prop string, seed uint64, tier string) *Scenario {
	r := ssched.Sub(seed, "gen")
	n := 150 + r.Intn(150)
	if r.Intn(4) == 0 {
		n = 100 + r.Intn(60) // around the inline capacity
	}
	body := &CoreBody{NKeys: 1, NLids: n + 8, Profile: "queue-migrate", Dbs: []int{0}}
	var ops []OpSpec
	ops = append(ops, OpSpec{Cmd: 1, Key: 0, Lid: 0, Count: 0, Expried: 600, Wait: true})
	for i := 1; i <= n; i++ {
		ops = append(ops, OpSpec{Cmd: 1, Key: 0, Lid: i, Count: 0, Timeout: 300, Expried: 600, DelayMs: r.Intn(2)})
	}
	np := 1 + r.Intn(2)
	for j := 0; j < np; j++ {
		ops = append(ops, OpSpec{Cmd: 1, Key: 0, Lid: n + 1 + j, Count: 0, Timeout: 300, Expried: 600, TFlag: tfPriority, Rcount: uint8(1 + r.Intn(3)), DelayMs: 1 + r.Intn(3)})
	}
	// a few more plain ones behind the priority ring
	for j := 0; j < 3; j++ {
		ops = append(ops, OpSpec{Cmd: 1, Key: 0, Lid: n + 4 + j, Count: 0, Timeout: 300, Expried: 600, DelayMs: r.Intn(2)})
	}
	// release: whoever holds is unlocked with the unlock-first flag by a LockId that holds nothing
	total := 1 + n + np + 3
	for i := 0; i < total; i++ {
		ops = append(ops, OpSpec{Cmd: 2, Key: 0, Lid: n + 7, Flag: protocol.UNLOCK_FLAG_UNLOCK_FIRST_LOCK_WHEN_UNLOCKED, DelayMs: 1 + r.Intn(3), Wait: true})
	}
	body.Clients = []ClientSpec{{Kind: "mem", StartMs: 50, Ops: ops}}
	raw, _ := json.Marshal(body)
	return &Scenario{Knobs: genKnobs(r), Sched: genSched(r, seed), Body: raw, MaxSimS: 3000}
}

// genHolderWaves: structured workload for the holder bookkeeping (C02, C17).
func genHolderWaves(prop string, seed uint64, tier string) *Scenario {
	r := ssched.Sub(seed, "gen")
	n := 150 + r.Intn(270)
	if r.Intn(4) == 0 {
		n = 20 + r.Intn(120)
	}
	body := &CoreBody{NKeys: 1, NLids: n, Profile: "holder-waves", Dbs: []int{0}, Serial: true}
	var ops []OpSpec
	cnt := uint16(0xffff)
	if r.Intn(3) == 0 {
		cnt = uint16(n + 50)
	}
	for i := 0; i < n; i++ {
		ops = append(ops, OpSpec{Cmd: 1, Key: 0, Lid: i, Count: cnt, Rcount: uint8(r.Intn(3)), Expried: uint16(40 + r.Intn(30)), DelayMs: r.Intn(3)})
		if r.Intn(10) == 0 {
			// a re-entrant level now and then
			ops = append(ops, OpSpec{Cmd: 1, Key: 0, Lid: i, Count: cnt, Rcount: 3, Expried: uint16(40 + r.Intn(30))})
		}
	}
	order := make([]int, n)
	for i := range order {
		order[i] = i
	}
	switch r.Intn(3) {
	case 1:
		for i, j := 0, n-1; i < j; i, j = i+1, j-1 {
			order[i], order[j] = order[j], order[i]
		}
	case 2:
		for i := n - 1; i > 0; i-- {
			j := r.Intn(i + 1)
			order[i], order[j] = order[j], order[i]
		}
	}
	for _, l := range order {
		ops = append(ops, OpSpec{Cmd: 2, Key: 0, Lid: l, Rcount: 0, DelayMs: r.Intn(3)})
		switch r.Intn(6) {
		case 0, 1:
			ops = append(ops, OpSpec{Cmd: 2, Key: 0, Lid: l, Rcount: 0}) // must be refused
		case 2:
			ops = append(ops, OpSpec{Cmd: 1, Key: 0, Lid: l, Count: cnt, Rcount: 1, Expried: 30})
			ops = append(ops, OpSpec{Cmd: 2, Key: 0, Lid: l, Rcount: 0})
			ops = append(ops, OpSpec{Cmd: 2, Key: 0, Lid: l, Rcount: 0})
		case 3:
			ops = append(ops, OpSpec{Cmd: 2, Key: 0, Lid: r.Intn(n), Flag: protocol.UNLOCK_FLAG_UNLOCK_FIRST_LOCK_WHEN_UNLOCKED, Rcount: 0})
		}
	}
	body.Clients = []ClientSpec{{Kind: "mem", StartMs: 50, Ops: ops}}
	raw, _ := json.Marshal(body)
	sc := &Scenario{Knobs: genKnobs(r), Sched: genSched(r, seed), Body: raw, MaxSimS: 1200}
	return sc
}
