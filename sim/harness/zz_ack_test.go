package server

// C11: ack-required locks succeed only after log + quorum acknowledgement.
//
// A leader with 0-2 followers (real servers), ack mode "all" or "majority". Clients on the leader
// take locks with the require-ack flag, each with a LockId of its own, some carrying a value
// operation, some with plain lock requests queued behind them; other clients probe the same
// key and LockId while the acknowledgement is pending. Faults make acknowledgements late, lost or
// negative: followers are partitioned or killed, writes to the leader's or a follower's log fail.
// The disk journal shows when each node wrote the record of each ack-lock to its log.
//   - SUCCED for an ack-lock requires the record in the leader's log and in the logs of as many
//     followers as the mode asks for (of the followers connected throughout);
//   - LOCK_ACK_WAITING is only answered while an ack-lock of that key and LockId is pending;
//   - an ack-lock that is refused leaves no hold and no value of its own, and every request
//     (also the ones queued behind it) is answered within its timeout plus a margin.

import (
	"encoding/json"
	"errors"
	"fmt"
	"path/filepath"
	"strings"
	"time"

	"github.com/snower/slock/protocol"
	"github.com/snower/slock/simrt/snet"
	"github.com/snower/slock/simrt/sos"
	"github.com/snower/slock/simrt/ssched"
)

type AckFault struct {
	Kind   string `json:"kind"` // partition | kill | follower_disk | leader_disk | demote
	Target int    `json:"target"`
	AtMs   int    `json:"at_ms"`
	ForMs  int    `json:"for_ms"`
}

type AckBody struct {
	NFollowers int          `json:"nfollowers"`
	NKeys      int          `json:"nkeys"`
	Clients    []ClientSpec `json:"clients"`
	Faults     []AckFault   `json:"faults"`
	LingerS    int          `json:"linger_s"`
}


var forceDemote = false

func genAckDemote(prop string, seed uint64, tier string) *Scenario {
	forceDemote = true
	defer func() { forceDemote = false }()
	return genAck(prop, seed, tier)
}

func genAck(prop string, seed uint64, tier string) *Scenario {
	r := ssched.Sub(seed, "gen")
	pipelineOK = false
	body := &AckBody{NFollowers: r.Intn(3), NKeys: 1 + r.Intn(4), LingerS: 8}
	uniq := 0
	lid := 0
	nc := 2 + r.Intn(3)
	for c := 0; c < nc; c++ {
		cs := ClientSpec{Kind: "mem", StartMs: 300 + r.Intn(500)}
		no := 3 + r.Intn(10)
		for i := 0; i < no; i++ {
			key := r.Intn(body.NKeys)
			switch r.Intn(10) {
			case 0, 1, 2, 3, 4: // an ack-lock with a LockId of its own
				lid++
				o := OpSpec{Cmd: 1, Key: key, Lid: 100 + lid, DelayMs: r.Intn(500), Timeout: uint16(1 + r.Intn(5)), TFlag: tfAck,
					Expried: []uint16{30, 120, 600}[r.Intn(3)], Count: []uint16{0, 0, 1, 0xffff}[r.Intn(4)], Wait: r.Intn(2) == 0}
				if r.Intn(3) == 0 {
					o.Data = genDataSpec(r, &uniq, 1)
				}
				cs.Ops = append(cs.Ops, o)
				if r.Intn(2) == 0 { // a probe of the same key and LockId while it is pending
					p := OpSpec{Cmd: uint8(1 + r.Intn(2)), Key: key, Lid: 100 + lid, DelayMs: r.Intn(30), Expried: 30, Timeout: 0}
					cs.Ops = append(cs.Ops, p)
				}
				if r.Intn(2) == 0 { // released later
					cs.Ops = append(cs.Ops, OpSpec{Cmd: 2, Key: key, Lid: 100 + lid, DelayMs: 200 + r.Intn(3000), Wait: true})
				}
			case 5, 6, 7: // a plain request that may queue behind an ack-lock
				o := OpSpec{Cmd: 1, Key: key, Lid: c*4 + r.Intn(2), DelayMs: r.Intn(400), Timeout: uint16(r.Intn(8)), Expried: uint16(2 + r.Intn(20)),
					Count: []uint16{0, 1, 0xffff}[r.Intn(3)]}
				cs.Ops = append(cs.Ops, o)
			default:
				cs.Ops = append(cs.Ops, OpSpec{Cmd: 2, Key: key, Lid: c*4 + r.Intn(2), DelayMs: r.Intn(400)})
			}
		}
		body.Clients = append(body.Clients, cs)
	}
	if af := ssched.Sub(seed, "ackflags"); af.Intn(3) == 0 {
		// drawn from a generator of its own: unlocks that pre-empt an ack-lock: unlock-first (the oldest
		// hold, whoever took it: possibly the ack-lock whose acknowledgement is outstanding) and
		// cancel-wait aimed at an ack-lock's LockId (possibly still queued)
		for c := range body.Clients {
			ops := body.Clients[c].Ops
			for i := range ops {
				if ops[i].Cmd != 2 {
					continue
				}
				switch af.Intn(4) {
				case 0:
					ops[i].Flag |= protocol.UNLOCK_FLAG_UNLOCK_FIRST_LOCK_WHEN_UNLOCKED
				case 1:
					if lid > 0 {
						ops[i].Flag |= protocol.UNLOCK_FLAG_CANCEL_WAIT_LOCK_WHEN_UNLOCKED
						ops[i].Lid = 100 + 1 + af.Intn(lid)
						ops[i].DelayMs = af.Intn(300)
					}
				}
			}
		}
	}
	nf := r.Intn(4)
	for i := 0; i < nf; i++ {
		f := AckFault{AtMs: 300 + r.Intn(5000), ForMs: 300 + r.Intn(6000)}
		switch r.Intn(5) {
		case 0:
			f.Kind = "leader_disk"
			f.ForMs = 50 + r.Intn(1500)
		case 1:
			f.Kind, f.Target = "follower_disk", r.Intn(3)
			f.ForMs = 50 + r.Intn(3000)
		case 2:
			f.Kind, f.Target = "kill", r.Intn(3)
		default:
			f.Kind, f.Target = "partition", r.Intn(3)
		}
		body.Faults = append(body.Faults, f)
	}
	if forceDemote || r.Intn(8) == 0 {
		// the leader steps down (the sequence the arbiter runs when it quits the lead), preferably
		// while acknowledgements are outstanding: a follower is cut off shortly before
		at := 600 + r.Intn(4000)
		if body.NFollowers > 0 && r.Intn(4) > 0 {
			body.Faults = append(body.Faults, AckFault{Kind: "partition", Target: r.Intn(body.NFollowers), AtMs: at - r.Intn(900), ForMs: 2000 + r.Intn(6000)})
		}
		body.Faults = append(body.Faults, AckFault{Kind: "demote", AtMs: at})
	}
	raw, _ := json.Marshal(body)
	k := genKnobs(r)
	k.AofAckMode = uint(r.Intn(2))
	k.AofFileBufferSize = []uint{64, 512, 4096}[r.Intn(3)]
	k.DBLockAofTime = uint(r.Intn(2))
	sc := &Scenario{Knobs: k, Sched: genSched(r, seed), Body: raw, MaxSimS: 6000}
	if r.Intn(3) == 0 {
		sc.Net = NetCfg{LatencyUs: r.Intn(5000), JitterUs: r.Intn(5000)}
	}
	return sc
}

type ackKey struct {
	key [16]byte
	lid [16]byte
}

func runAck(w *World) {
	body := &AckBody{}
	if err := json.Unmarshal(w.sc.Body, body); err != nil {
		w.harnessErr("bad body: %v", err)
		return
	}
	h := newHistory(w)
	rr := &restartRun{w: w, h: h, body: &RestartBody{NKeys: body.NKeys, Dbs: []int{0}}}
	leaderAddr := "127.0.0.1:5001"
	var leader *Node
	fnodes := make([]*Node, body.NFollowers)
	done := false
	demotedEv := uint64(0)
	demoteDoneEv := uint64(0)
	// which nodes have the record of which ack-lock in their log, and since when
	logged := map[int]map[ackKey]uint64{}
	diskFail := map[int]bool{} // node -> log writes fail now
	sos.D.Inject = func(node int, op, path string, n int, idx int) *sos.Fault {
		grp := node
		if node >= 100 {
			grp = 100 + (node-100)/10*10
		}
		if op == "write" && diskFail[grp] && strings.Contains(filepath.Base(path), "append.aof.") && !strings.HasSuffix(path, ".dat") {
			w.fault("log_write_error")
			return &sos.Fault{Err: errors.New("input/output error")}
		}
		return nil
	}
	sos.D.OnOp = func(e *sos.JEntry) {
		if e.Op != "write" || e.Fail || strings.HasSuffix(e.Path, ".dat") || !strings.Contains(filepath.Base(e.Path), ".aof") {
			return
		}
		for i := 0; i+64 <= len(e.Data); i += 64 {
			if len(e.Data)%64 != 0 {
				break
			}
			al := NewAofLock()
			copy(al.buf, e.Data[i:i+64])
			if al.Decode() != nil || al.CommandType != protocol.COMMAND_LOCK || al.AofFlag&AOF_FLAG_REQUIRE_ACKED == 0 {
				continue
			}
			grp := e.Node
			if grp >= 100 {
				grp = 100 + (grp-100)/10*10
			}
			if logged[grp] == nil {
				logged[grp] = map[ackKey]uint64{}
			}
			k := ackKey{al.LockKey, al.LockId}
			if _, ok := logged[grp][k]; !ok {
				logged[grp][k] = h.nextEv()
				w.logf("LOGGED n%d ack-lock key=%x lid=%x", e.Node, al.LockKey[:2], al.LockId[:3])
			}
		}
	}
	// number of replication channels of the leader over time (sampled at every history event)
	type chanSample struct {
		ev uint64
		n  int
	}
	var chans []chanSample
	sample := func() {
		if leader != nil && leader.sl != nil {
			chans = append(chans, chanSample{h.ev, len(leader.sl.replicationManager.serverChannels)})
		}
	}
	minChans := func(from, to uint64) int {
		m := -1
		for _, s := range chans {
			if s.ev >= from && s.ev <= to && (m < 0 || s.n < m) {
				m = s.n
			}
		}
		if m < 0 {
			m = 0
		}
		return m
	}
	leaderHold := func(op *OpSpec) *Lock {
		db := leader.sl.dbs[op.Db]
		if db == nil {
			return nil
		}
		kb, lb := keyBytes(op.Key), lidBytes(op.Lid)
		for _, m := range allManagers(db) {
			if m.refCount == 0xffffffff || m.lockKey != kb {
				continue
			}
			for _, l := range holdersOf(m) {
				if l.command != nil && l.command.LockId == lb {
					return l
				}
			}
		}
		return nil
	}
	leaderValue := func(op *OpSpec) (bool, string) {
		db := leader.sl.dbs[op.Db]
		if db == nil {
			return false, ""
		}
		kb := keyBytes(op.Key)
		for _, m := range allManagers(db) {
			if m.refCount == 0xffffffff || m.lockKey != kb {
				continue
			}
			if d := m.GetLockData(); d != nil {
				v := valOfFrame(d)
				return true, string(v.B)
			}
		}
		return false, ""
	}
	h.onInv = append(h.onInv, func(r *ReqRec) { sample() })
	h.onReply = append(h.onReply, func(r *ReqRec, rep *Reply) {
		sample()
		if len(r.Replies) != 1 {
			return
		}
		isAck := r.Op.Cmd == protocol.COMMAND_LOCK && r.Op.TFlag&tfAck != 0
		k := ackKey{keyBytes(r.Op.Key), lidBytes(r.Op.Lid)}
		if demotedEv > 0 && rep.Ev > demotedEv && r.Op.Cmd == protocol.COMMAND_LOCK && rep.Result == protocol.RESULT_SUCCED {
			// the node has given up the lead: a request that reaches it afterwards is not granted, a
			// queued request is not served, and an ack-lock that is still pending once the step-down
			// has finished must have been failed by it. An ack-lock that was in flight when the
			// step-down began may still complete while it is in progress (its record is in every log).
			inFlight := r.InvEv < demotedEv && isAck && (demoteDoneEv == 0 || rep.Ev < demoteDoneEv)
			if !inFlight {
				w.violate("C10", "non_leader_granted", "request %s was answered SUCCED by node n1 after it had stepped down as leader (state %d)", r, leader.sl.state)
				if isAck {
					w.violate("C11", "ack_succeeded_after_leadership_lost", "ack-lock %s was answered SUCCED after the leader had stepped down; a pending ack-lock must be failed when leadership is lost", r)
					return
				}
			} else {
				w.probe("ack_locks_completed_during_step_down")
			}
		}
		switch {
		case isAck && rep.Result == protocol.RESULT_SUCCED && r.Op.Expried > 0:
			w.probe("ack_locks_succeeded")
			if _, ok := logged[1][k]; !ok {
				cls, extra := "ack_succeeded_before_leader_log", ""
				nf := 0
				for fi := 0; fi < body.NFollowers; fi++ {
					if _, ok := logged[100+fi*10][k]; ok {
						nf++
					}
				}
				if w.sc.Knobs.AofAckMode == 1 && nf >= 2 {
					// majority mode counts the leader's own log write as one vote among the copies: two
					// followers outvote it (finding F67)
					cls += "_in_majority_mode"
					extra = fmt.Sprintf(" (ack mode majority, the record is in the logs of %d followers)", nf)
				}
				w.violate("C11", cls, "ack-lock %s was answered SUCCED but its record has not been written to the leader's log%s", r, extra)
				return
			}
			conn := minChans(r.InvEv, rep.Ev)
			need := conn
			if w.sc.Knobs.AofAckMode == 1 {
				need = (conn+1)/2 + 1 - 1
			}
			have := 0
			for fi := 0; fi < body.NFollowers; fi++ {
				if _, ok := logged[100+fi*10][k]; ok {
					have++
				}
			}
			if conn > 0 {
				w.probe("ack_locks_succeeded_with_followers")
			}
			if have < need {
				w.violate("C11", "ack_succeeded_without_quorum", "ack-lock %s was answered SUCCED with its record in the logs of %d followers; %d followers were connected throughout and the ack mode (%d) asks for %d of them", r, have, conn, w.sc.Knobs.AofAckMode, need)
			}
		case isAck && rep.Result != protocol.RESULT_SUCCED:
			w.probe("ack_locks_refused")
			w.res.Probes[fmt.Sprintf("ack_lock_refused_result_%d", rep.Result)]++
			// (a hold of that LockId that stems from another request, one that was granted after this one's
			// hold had been removed and before its refusal was delivered, is not this request's hold)
			if l := leaderHold(&r.Op); l != nil && l.command.RequestId == r.Id && rep.Result != protocol.RESULT_LOCKED_ERROR && rep.Result != protocol.RESULT_LOCK_ACK_WAITING {
				w.violate("C11", "refused_ack_lock_still_held", "ack-lock %s was answered with result %d but the leader still holds LockId %d on key %d (depth %d, ack count %d)", r, rep.Result, r.Op.Lid, r.Op.Key, l.locked, l.ackCount)
			}
			if r.Op.Data != nil && r.Op.Data.Op == "set" && rep.Result != protocol.RESULT_LOCKED_ERROR && rep.Result != protocol.RESULT_LOCK_ACK_WAITING {
				if has, v := leaderValue(&r.Op); has && v == string(r.Op.Data.Val) {
					cls := "refused_ack_lock_value_kept"
					for _, q := range h.order {
						// another ack-lock with a value operation was pending on the key at the same time:
						// the two undo records are applied out of order (finding F70)
						if q != r && q.Op.Cmd == protocol.COMMAND_LOCK && q.Op.TFlag&tfAck != 0 && q.Op.Data != nil && q.Op.Key == r.Op.Key && q.Op.Db == r.Op.Db &&
							q.InvEv < rep.Ev && (len(q.Replies) == 0 || q.Replies[0].Ev > r.InvEv) {
							cls = "refused_ack_lock_value_kept_overlapping"
						}
					}
					w.violate("C11", cls, "ack-lock %s was answered with result %d but the value it wrote (%q) is still attached to key %d", r, rep.Result, v, r.Op.Key)
				}
			}
		}
		if rep.Result == protocol.RESULT_LOCK_ACK_WAITING {
			w.probe("ack_waiting_replies")
			pending := false
			for _, q := range h.order {
				first := r.Op.Cmd == protocol.COMMAND_UNLOCK && r.Op.Flag&protocol.UNLOCK_FLAG_UNLOCK_FIRST_LOCK_WHEN_UNLOCKED != 0 // addresses the oldest hold, whatever its LockId
				if q == r || q.Op.Cmd != protocol.COMMAND_LOCK || q.Op.TFlag&tfAck == 0 || q.Op.Key != r.Op.Key || (q.Op.Lid != r.Op.Lid && !first) || q.InvEv > rep.Ev {
					continue
				}
				if len(q.Replies) == 0 || q.Replies[0].Ev > r.InvEv {
					pending = true
				}
			}
			if !pending {
				w.violate("C11", "ack_waiting_without_pending_ack_lock", "request %s was answered LOCK_ACK_WAITING but no ack-lock of that key and LockId was pending while it was being served", r)
			}
		}
	})

	ssched.SpawnOn(0, "ack-driver", func() {
		defer func() { done = true }()
		leader = w.boot(1, w.mkcfg(1, "", ""))
		if !rr.waitReady(leader, "leader start") {
			return
		}
		for fi := range fnodes {
			id := 100 + fi*10
			fnodes[fi] = w.boot(id, w.mkcfg(id, leaderAddr, ""))
		}
		for fi, fn := range fnodes {
			if !rr.waitReady(fn, fmt.Sprintf("follower %d start", fi)) {
				return
			}
		}
		for i := 0; i < 600; i++ {
			ok := len(leader.sl.replicationManager.serverChannels) == body.NFollowers
			for _, fn := range fnodes {
				if fn.sl.state != STATE_FOLLOWER {
					ok = false
				}
			}
			if ok {
				break
			}
			sleep(50 * time.Millisecond)
		}
		t0 := w.now()
		at := func(ms int) {
			if d := t0.Add(time.Duration(ms) * time.Millisecond).Sub(w.now()); d > 0 {
				sleep(d)
			}
		}
		for _, f := range body.Faults {
			f := f
			if f.Kind != "leader_disk" && f.Target >= body.NFollowers {
				continue
			}
			ssched.SpawnOn(0, "fault-"+f.Kind, func() {
				at(f.AtMs)
				grp := 100 + f.Target*10
				switch f.Kind {
				case "leader_disk":
					diskFail[1] = true
					w.fault("leader_disk_errors")
					at(f.AtMs + f.ForMs)
					diskFail[1] = false
				case "follower_disk":
					diskFail[grp] = true
					w.fault("follower_disk_errors")
					at(f.AtMs + f.ForMs)
					diskFail[grp] = false
				case "partition":
					snet.N.Partition(1, grp, true)
					w.fault("partition")
					at(f.AtMs + f.ForMs)
					snet.N.Partition(1, grp, false)
					w.fault("heal")
				case "kill":
					w.kill(grp)
					w.fault("follower_kill")
				case "demote":
					pend := 0
					ssched.NoPreempt(func() {
						for _, q := range h.order {
							if q.Sent && len(q.Replies) == 0 && q.Op.Cmd == protocol.COMMAND_LOCK && q.Op.TFlag&tfAck != 0 {
								pend++
							}
						}
					})
					if pend > 0 {
						w.probe("demotions_with_pending_ack_locks")
					}
					w.fault("leader_demoted")
					fin := false
					ssched.SpawnOn(1, "demote", func() {
						// what ArbiterManager.QuitLeader does with the lock engine and the replication layer
						sl := leader.sl
						sl.updateState(STATE_FOLLOWER)
						demotedEv = h.nextEv()
						sleep(time.Millisecond)
						_ = sl.replicationManager.transparencyManager.ChangeLeader("")
						_ = sl.replicationManager.SwitchToFollower("")
						demoteDoneEv = h.nextEv()
						fin = true
					})
					for i := 0; i < 400 && !fin; i++ {
						sleep(50 * time.Millisecond)
					}
					if !fin {
						w.violate("C11", "demotion_stuck", "the leader's step-down (updateState(FOLLOWER), SwitchToFollower) has not finished after 20 simulated seconds")
					}
				}
			})
		}
		rr.runClients(leader, 0, body.Clients)
		sleep(time.Duration(body.LingerS) * time.Second)
		// every request is answered within its timeout plus a margin
		ssched.NoPreempt(func() {
			for _, r := range h.order {
				if !r.Sent || len(r.Replies) > 0 {
					continue
				}
				if w.now().Sub(r.InvT) > time.Duration(r.Op.Timeout)*time.Second+6*time.Second {
					cls := "request_never_answered"
					if r.Op.TFlag&tfAck != 0 {
						cls = "ack_lock_never_answered"
					}
					w.violate("C11", cls, "request %s (timeout %d s) has not been answered %v after it was sent", r, r.Op.Timeout, w.now().Sub(r.InvT))
				}
			}
		})
	})
	end := w.S.Loop(func() bool {
		if len(w.S.Panics) > 0 {
			p := w.S.Panics[0]
			w.violate(w.sc.Prop, "server_crash@"+panicSite(p.Stack), "a server goroutine panicked: %s [task %s]", p.Value, p.Task)
			return true
		}
		return done && w.S.ReadyLen() == 0 || len(w.res.Violations) > 0
	}, time.Duration(w.sc.MaxSimS)*time.Second)
	w.res.LoopEnd = end
	if end != "done" && w.res.HarnessErr == "" && len(w.res.Violations) == 0 {
		w.harnessErr("run did not finish: loop ended with %q", end)
	}
	w.res.Nontrivial = w.res.Probes["ack_locks_succeeded"] > 0
}

func init() {
	kinds["acklocks"] = &kindFn{gen: genAck, run: runAck}
	kinds["ackdemote"] = &kindFn{gen: genAckDemote, run: runAck}
	propKinds["C11"] = append(propKinds["C11"], struct {
		Kind   string
		Weight int
	}{"ackdemote", 3})
	propKinds["C10"] = append(propKinds["C10"], struct {
		Kind   string
		Weight int
	}{"ackdemote", 2})
	propKinds["C11"] = append(propKinds["C11"], struct {
		Kind   string
		Weight int
	}{"acklocks", 10})
}
