package server

// C19: client-library primitives keep their textbook guarantees over TCP.
//
// The real Go client package (instrumented like the server) talks to a real leader -- in some
// runs through a follower's forwarding port -- over the simulated transport. 2-16 goroutines
// (up to 64 in the thorough tier) on 1-4 client connections use one primitive per run on a shared
// key with seeded hold times. Every goroutine notes "acquire returned" and "release called" with
// the history's event counter; the oracle works on these client-side facts only:
//   Lock / RLock          at most one holder between an acquire's return and its release's call
//                          (RLock: from the first acquire's return to the last release's call)
//   Semaphore(n) / Flow(n) acquires returned minus releases called never exceeds n
//   RWLock                 a writer overlaps nobody, readers overlap readers only
//   PriorityLock           exclusive; a waiter does not acquire while a waiter of higher priority,
//                          waiting since well before the release, is still waiting
//   Event                  a successful Wait returns only after Set was called

import (
	"encoding/json"
	"fmt"
	"sort"
	"time"

	"github.com/snower/slock/client"
	"github.com/snower/slock/simrt/snet"
	"github.com/snower/slock/simrt/ssched"
)

type LibWorker struct {
	Conn    int   `json:"conn"`
	StartMs int   `json:"start_ms"`
	Rounds  int   `json:"rounds"`
	HoldMs  []int `json:"hold_ms"`
	GapMs   []int `json:"gap_ms"`
	Writer  bool  `json:"writer,omitempty"`
	Prio    uint8 `json:"prio,omitempty"`
	Depth   int   `json:"depth,omitempty"`
}

type LibBody struct {
	Primitive   string      `json:"primitive"`
	N           int         `json:"n"`
	NConns      int         `json:"nconns"`
	ViaFollower bool        `json:"via_follower,omitempty"`
	Workers     []LibWorker `json:"workers"`
	TimeoutS    int         `json:"timeout_s"`
	SetAtMs     int         `json:"set_at_ms,omitempty"`
	DefaultSet  bool        `json:"default_set,omitempty"`
	// Replset: every "connection" is a client.ReplsetClient with two member connections (the leader
	// twice, or the leader and the follower) instead of a plain client.Client
	Replset bool `json:"replset,omitempty"`
	// CutBytes: the k-th connection a client opens to a server is reset by the server's side after
	// that many bytes of replies (0 = never): requests already executed lose their replies, the
	// library reconnects on its own
	CutBytes []int `json:"cut_bytes,omitempty"`
	// ExpriedS: the expiry every acquisition asks for (0 = 120 s)
	ExpriedS int `json:"expried_s,omitempty"`
}

func genClientLib(prop string, seed uint64, tier string) *Scenario {
	r := ssched.Sub(seed, "gen")
	pipelineOK = false
	prims := []string{"lock", "rlock", "semaphore", "flow", "rwlock", "prioritylock", "event"}
	body := &LibBody{Primitive: prims[r.Intn(len(prims))], N: 1 + r.Intn(5), NConns: 1 + r.Intn(4), TimeoutS: []int{0, 1, 3, 5, 8}[r.Intn(5)], ViaFollower: r.Intn(5) == 0}
	ng := 2 + r.Intn(12)
	if tier == "thorough" && r.Intn(3) == 0 {
		ng = 16 + r.Intn(49)
	}
	for g := 0; g < ng; g++ {
		wk := LibWorker{Conn: r.Intn(body.NConns), StartMs: r.Intn(300), Rounds: 1 + r.Intn(5), Writer: r.Intn(3) == 0, Prio: uint8(r.Intn(4)), Depth: 1 + r.Intn(3)}
		for i := 0; i < wk.Rounds; i++ {
			wk.HoldMs = append(wk.HoldMs, r.Intn(60))
			wk.GapMs = append(wk.GapMs, r.Intn(40))
		}
		body.Workers = append(body.Workers, wk)
	}
	if body.Primitive == "event" {
		body.SetAtMs = 200 + r.Intn(1500)
		body.DefaultSet = r.Intn(2) == 0
		if body.SetAtMs%2 == 0 {
			// set late: the less patient waiters have given up by then, the others must still be waiting
			body.SetAtMs += 2500 + 1000*(body.SetAtMs%3)
		}
	}
	if body.Primitive == "prioritylock" && r.Intn(3) > 0 {
		// queues that build up: longer holds, distinct priorities, enough patience
		body.TimeoutS = 20 + r.Intn(20)
		for g := range body.Workers {
			wk := &body.Workers[g]
			wk.Prio = uint8(r.Intn(8))
			wk.StartMs = r.Intn(500)
			wk.Rounds = 1 + r.Intn(2)
			for i := range wk.HoldMs {
				wk.HoldMs[i] = 150 + r.Intn(400)
			}
		}
	}
	if body.Primitive != "event" && r.Intn(3) == 0 {
		body.Replset = true
		body.NConns = 1 + r.Intn(2)
		for g := range body.Workers {
			body.Workers[g].Conn = r.Intn(body.NConns)
		}
		if body.TimeoutS < 3 {
			body.TimeoutS = 3 + r.Intn(5)
		}
	}
	if body.Primitive != "event" && r.Intn(3) == 0 {
		n := 1 + r.Intn(4)
		for i := 0; i < n; i++ {
			body.CutBytes = append(body.CutBytes, []int{0, 64 * (1 + r.Intn(12)), 64*(1+r.Intn(12)) - 1 - r.Intn(62), 1 + r.Intn(1500)}[r.Intn(4)])
		}
		for g := range body.Workers {
			// long enough for the library's reconnect (it retries after a few seconds)
			if body.Workers[g].Rounds < 3 {
				body.Workers[g].Rounds = 3
				for len(body.Workers[g].HoldMs) < 3 {
					body.Workers[g].HoldMs = append(body.Workers[g].HoldMs, r.Intn(60))
					body.Workers[g].GapMs = append(body.Workers[g].GapMs, 500+r.Intn(3000))
				}
			}
		}
	}
	if r.Intn(4) == 0 {
		// reconnect profile: replica-set clients whose member connections lose replies and are reset
		// again and again while re-entrant locks and counted primitives are being taken and released
		body.Primitive = []string{"rlock", "rlock", "semaphore", "flow", "lock"}[r.Intn(5)]
		body.Replset, body.NConns, body.TimeoutS = true, 1+r.Intn(2), 5+r.Intn(5)
		body.SetAtMs, body.DefaultSet = 0, false
		body.CutBytes = nil
		for i, n := 0, 2+r.Intn(4); i < n; i++ {
			body.CutBytes = append(body.CutBytes, 64*(1+r.Intn(8))-r.Intn(64))
		}
		if len(body.Workers) > 5 {
			body.Workers = body.Workers[:2+r.Intn(4)]
		}
		for g := range body.Workers {
			wk := &body.Workers[g]
			wk.Conn, wk.Rounds = r.Intn(body.NConns), 4+r.Intn(5)
			wk.HoldMs, wk.GapMs = nil, nil
			for i := 0; i < wk.Rounds; i++ {
				wk.HoldMs = append(wk.HoldMs, r.Intn(300))
				wk.GapMs = append(wk.GapMs, 100+r.Intn(1500))
			}
		}
	}
	if lh := ssched.Sub(seed, "longhold"); body.Primitive != "event" && len(body.CutBytes) == 0 && lh.Intn(8) == 0 {
		// long-hold profile (drawn from a generator of its own): one worker keeps what it acquired for
		// 40-80 s, long enough for the server to move the hold to its long-term tables, while the
		// others keep arriving
		w0 := &body.Workers[0]
		w0.StartMs, w0.Rounds, w0.HoldMs, w0.GapMs = lh.Intn(200), 1, []int{38000 + lh.Intn(42000)}, []int{0}
		for g := 1; g < len(body.Workers); g++ {
			wk := &body.Workers[g]
			wk.StartMs = lh.Intn(90000)
			for i := range wk.GapMs {
				wk.GapMs[i] = lh.Intn(5000)
			}
		}
		if body.TimeoutS > 3 {
			body.TimeoutS = lh.Intn(4)
		}
	}
	if qh := ssched.Sub(seed, "queuehold"); body.Primitive != "event" && len(body.CutBytes) == 0 && !body.Replset && body.Workers[0].HoldMs[0] < 30000 && qh.Intn(8) == 0 {
		// queue-then-hold profile (drawn from a generator of its own): a short expiry, every worker
		// keeps what it acquired for almost that long, and they all arrive together: whoever had to
		// queue for seconds must still get the whole term it asked for, counted from its admission
		body.ExpriedS, body.TimeoutS = 4+qh.Intn(3), 60
		if len(body.Workers) > 5 {
			body.Workers = body.Workers[:3+qh.Intn(3)]
		}
		if body.N > 2 {
			body.N = 1 + qh.Intn(2)
		}
		for g := range body.Workers {
			wk := &body.Workers[g]
			wk.StartMs, wk.Rounds, wk.Depth = qh.Intn(400), 1+qh.Intn(2), 1
			wk.HoldMs, wk.GapMs = nil, nil
			for i := 0; i < wk.Rounds; i++ {
				wk.HoldMs = append(wk.HoldMs, body.ExpriedS*1000-300-qh.Intn(600))
				wk.GapMs = append(wk.GapMs, qh.Intn(200))
			}
		}
	}
	for g := range body.Workers {
		wk := &body.Workers[g]
		for len(wk.HoldMs) < wk.Rounds {
			wk.HoldMs = append(wk.HoldMs, r.Intn(60))
		}
		for len(wk.GapMs) < wk.Rounds {
			wk.GapMs = append(wk.GapMs, r.Intn(40))
		}
	}
	raw, _ := json.Marshal(body)
	k := genKnobs(r)
	sc := &Scenario{Knobs: k, Sched: genSched(r, seed), Body: raw, MaxSimS: 6000}
	if r.Intn(2) == 0 {
		sc.Net = NetCfg{LatencyUs: r.Intn(2000), JitterUs: r.Intn(2000), FragPermil: []int{0, 300, 900}[r.Intn(3)]}
	}
	return sc
}

// libConn is what the workers use: implemented by client.Client and client.ReplsetClient alike.
type libConn interface {
	Lock(lockKey [16]byte, timeout uint32, expried uint32) *client.Lock
	RLock(lockKey [16]byte, timeout uint32, expried uint32) *client.RLock
	Semaphore(semaphoreKey [16]byte, timeout uint32, expried uint32, count uint16) *client.Semaphore
	MaxConcurrentFlow(flowKey [16]byte, count uint16, timeout uint32, expried uint32) *client.MaxConcurrentFlow
	RWLock(lockKey [16]byte, timeout uint32, expried uint32) *client.RWLock
	PriorityLock(lockKey [16]byte, priority uint8, timeout uint32, expried uint32) *client.PriorityLock
	Event(eventKey [16]byte, timeout uint32, expried uint32, defaultSeted bool) *client.Event
	Close() error
}

type libEvent struct {
	ev     uint64
	g      int
	kind   string // acq (acquire returned), rel (release called), inv (acquire called), fail, wait_ret, set_inv
	writer bool
	prio   uint8
	at     time.Time
}

func runClientLib(w *World) {
	body := &LibBody{}
	if err := json.Unmarshal(w.sc.Body, body); err != nil {
		w.harnessErr("bad body: %v", err)
		return
	}
	h := newHistory(w)
	rr := &restartRun{w: w, h: h}
	done := false
	var evs []libEvent
	note := func(g int, kind string, wk *LibWorker) {
		ssched.NoPreempt(func() {
			evs = append(evs, libEvent{ev: h.nextEv(), g: g, kind: kind, writer: wk != nil && wk.Writer, prio: func() uint8 {
				if wk != nil {
					return wk.Prio
				}
				return 0
			}(), at: w.now()})
			w.logf("LIB g%d %s", g, kind)
		})
	}
	key := keyBytes(7)
	ssched.SpawnOn(0, "lib-driver", func() {
		defer func() { done = true }()
		leader := w.boot(1, w.mkcfg(1, "", ""))
		if !rr.waitReady(leader, "leader start") {
			return
		}
		port := uint(5001)
		if body.ViaFollower {
			f := w.boot(100, w.mkcfg(100, "127.0.0.1:5001", ""))
			if !rr.waitReady(f, "follower start") {
				return
			}
			for i := 0; i < 600 && f.sl.state != STATE_FOLLOWER; i++ {
				sleep(50 * time.Millisecond)
			}
			port = f.cfg.Port
			w.probe("runs_via_follower")
		}
		cutIdx := 0
		opened := false
		var firstConns []*snet.SimConn
		if len(body.CutBytes) > 0 {
			snet.N.OnDial = func(cl, sv *snet.SimConn) {
				if cl.Node != 0 || (sv.Node != 1 && sv.Node != 100) {
					return
				}
				if !opened {
					firstConns = append(firstConns, sv) // cut once the opening handshakes are over
					return
				}
				if cutIdx < len(body.CutBytes) {
					if k := body.CutBytes[cutIdx]; k > 0 {
						sv.CutAfter(int64(k))
						w.fault("client_conn_cut_planned")
					}
					cutIdx++
				}
			}
			defer func() { snet.N.OnDial = nil }()
		}
		conns := make([]libConn, body.NConns)
		for i := range conns {
			if body.Replset {
				hosts := []string{"127.0.0.1:5001", fmt.Sprintf("127.0.0.1:%d", port)}
				rc := client.NewReplsetClient(hosts)
				if err := rc.Open(); err != nil {
					w.harnessErr("replset client open: %v", err)
					return
				}
				conns[i] = rc
				w.probe("replset_clients")
				continue
			}
			c := client.NewClient("127.0.0.1", port)
			if err := c.Open(); err != nil {
				w.harnessErr("client open: %v", err)
				return
			}
			conns[i] = c
		}
		opened = true
		for _, sv := range firstConns {
			if cutIdx < len(body.CutBytes) {
				if k := body.CutBytes[cutIdx]; k > 0 {
					sv.CutAfter(int64(k))
					w.fault("client_conn_cut_planned")
				}
				cutIdx++
			}
		}
		to, ex := uint32(body.TimeoutS), uint32(120)
		if body.ExpriedS > 0 {
			ex = uint32(body.ExpriedS)
			w.probe("queue_then_hold_runs")
		}
		n := uint16(body.N)
		fin := 0
		if body.Primitive == "event" && body.DefaultSet {
			// an event that is set by default is cleared before any waiter starts
			if _, err := conns[0].Event(key, to, ex, true).Clear(); err != nil {
				w.logf("event clear: %v", err)
			}
		}
		for g := range body.Workers {
			g := g
			wk := &body.Workers[g]
			c := conns[wk.Conn]
			ssched.SpawnOn(0, fmt.Sprintf("libworker%d", g), func() {
				defer func() { fin++ }()
				sleep(time.Duration(wk.StartMs) * time.Millisecond)
				var acquire, release func() error
				depth := 1
				switch body.Primitive {
				case "lock":
					l := c.Lock(key, to, ex)
					acquire = func() error { _, err := l.Lock(); return err }
					release = func() error { _, err := l.Unlock(); return err }
				case "rlock":
					l := c.RLock(key, to, ex)
					depth = wk.Depth
					acquire = func() error { _, err := l.Lock(); return err }
					release = func() error { _, err := l.Unlock(); return err }
				case "semaphore":
					s := c.Semaphore(key, to, ex, n)
					acquire = func() error { _, err := s.Acquire(); return err }
					release = func() error { _, err := s.Release(); return err }
				case "flow":
					f := c.MaxConcurrentFlow(key, n, to, ex)
					acquire = func() error { _, err := f.Acquire(); return err }
					release = func() error { _, err := f.Release(); return err }
				case "rwlock":
					l := c.RWLock(key, to, ex)
					if wk.Writer {
						acquire = func() error { _, err := l.Lock(); return err }
						release = func() error { _, err := l.Unlock(); return err }
					} else {
						acquire = func() error { _, err := l.RLock(); return err }
						release = func() error { _, err := l.RUnlock(); return err }
					}
				case "prioritylock":
					l := c.PriorityLock(key, wk.Prio, to, ex)
					acquire = func() error { _, err := l.Lock(); return err }
					release = func() error { _, err := l.Unlock(); return err }
				case "event":
					e := c.Event(key, to, ex, body.DefaultSet)
					// each waiter has a patience of its own (derived from values the generator drew anyway):
					// one waiter giving up must not wake the others
					patience := uint32(body.TimeoutS)
					if len(wk.HoldMs) > 0 && body.TimeoutS > 0 {
						patience = uint32(1 + (wk.HoldMs[0]+g)%(body.TimeoutS+3))
					}
					_, err := func() (any, error) { note(g, "inv", wk); return e.Wait(patience) }()
					if err == nil {
						note(g, "wait_ret", wk)
					} else {
						note(g, "fail", wk)
					}
					return
				}
				for i := 0; i < wk.Rounds; i++ {
					got := 0
					for d := 0; d < depth; d++ {
						note(g, "inv", wk)
						if err := acquire(); err != nil {
							note(g, "fail", wk)
							break
						}
						got++
						if d == 0 {
							note(g, "acq", wk)
						}
					}
					if got > 0 {
						sleep(time.Duration(wk.HoldMs[i]) * time.Millisecond)
					}
					for d := got; d > 0; d-- {
						if d == 1 {
							note(g, "rel", wk)
						}
						_ = release()
					}
					sleep(time.Duration(wk.GapMs[i]) * time.Millisecond)
				}
			})
		}
		if body.Primitive == "event" {
			e := conns[0].Event(key, to, ex, body.DefaultSet)
			sleep(time.Duration(body.SetAtMs) * time.Millisecond)
			note(-1, "set_inv", nil)
			if _, err := e.Set(); err != nil {
				w.logf("event set: %v", err)
			}
		}
		for i := 0; fin < len(body.Workers) && i < 60000; i++ {
			sleep(10 * time.Millisecond)
		}
		for _, c := range conns {
			_ = c.Close()
		}
		// ---- oracle over the client-side history
		sort.Slice(evs, func(i, j int) bool { return evs[i].ev < evs[j].ev })
		limit := 1
		switch body.Primitive {
		case "semaphore", "flow":
			limit = body.N
		}
		out := 0
		holders := map[int]bool{}
		var setAt uint64
		waiting := map[int]libEvent{} // goroutines whose acquire was called and has not returned
		var lastRel libEvent
		// an acquire that ends in failure was not necessarily queued on the server all the time (a
		// timeout of 0 never queues, a lost connection loses the request): only acquires that are
		// eventually granted count as waiters, and only in runs without planned connection cuts
		granted := map[uint64]bool{}
		{
			lastInv := map[int]uint64{}
			for _, e := range evs {
				switch e.kind {
				case "inv":
					lastInv[e.g] = e.ev
				case "acq":
					granted[lastInv[e.g]] = true
				}
			}
		}
		for _, e := range evs {
			switch e.kind {
			case "set_inv":
				setAt = e.ev
			case "wait_ret":
				w.probe("event_waits_returned")
				if setAt == 0 || e.ev < setAt {
					w.violate("C19", "event_wait_returned_before_set", "Event.Wait of goroutine %d returned successfully before Event.Set was called (default-set mode %v)", e.g, body.DefaultSet)
				}
			case "inv":
				if granted[e.ev] && len(body.CutBytes) == 0 {
					waiting[e.g] = e
				}
			case "fail":
				delete(waiting, e.g)
				w.probe("acquire_failures")
			case "acq":
				own, ownWaited := waiting[e.g]
				delete(waiting, e.g)
				w.probe("acquires")
				if body.Primitive == "rwlock" {
					for hg := range holders {
						hw := body.Workers[hg].Writer
						if hw || e.writer {
							w.violate("C19", "rwlock_writer_overlap", "RWLock: goroutine %d (writer %v) acquired while goroutine %d (writer %v) holds it", e.g, e.writer, hg, hw)
						}
					}
					if len(holders) > 0 {
						w.probe("rwlock_shared_reads")
					}
				} else {
					if out+1 > limit {
						w.violate("C19", body.Primitive+"_admitted_too_many", "%s(n=%d): acquire of goroutine %d returned while %d acquisitions are outstanding (returned and not yet released)", body.Primitive, limit, e.g, out)
					}
					if out > 0 {
						w.probe("concurrent_holders")
					}
				}
				// the hand-over rule is about requests that were queued when the hold ended: a request
				// that reaches the server while the key is free (between the unlock and the wake-up of
				// the queue) is an ordinary lock on a free key and is granted at once, so the acquirer
				// itself must have been waiting well before the release, like the one it overtook
				if body.Primitive == "prioritylock" && lastRel.ev != 0 && ownWaited && lastRel.at.Sub(own.at) > 100*time.Millisecond {
					for og, oi := range waiting {
						// higher priority = larger number? the server serves the larger Rcount first
						if oi.prio > e.prio && lastRel.at.Sub(oi.at) > 100*time.Millisecond && waiting[og].ev < lastRel.ev {
							w.violate("C19", "prioritylock_lower_priority_first", "PriorityLock: goroutine %d (priority %d) acquired while goroutine %d (priority %d), waiting since %v before the release, is still waiting", e.g, e.prio, og, oi.prio, lastRel.at.Sub(oi.at))
						}
					}
					w.probe("priority_handovers")
				}
				out++
				holders[e.g] = true
			case "rel":
				out--
				delete(holders, e.g)
				lastRel = e
			}
		}
		w.res.Probes["primitive_"+body.Primitive]++
	})
	end := w.S.Loop(func() bool {
		if len(w.S.Panics) > 0 {
			p := w.S.Panics[0]
			w.violate(w.sc.Prop, "crash@"+panicSite(p.Stack), "a goroutine of the server or the client library panicked: %s [task %s]", p.Value, p.Task)
			return true
		}
		return done && w.S.ReadyLen() == 0 || len(w.res.Violations) > 0
	}, time.Duration(w.sc.MaxSimS)*time.Second)
	w.res.LoopEnd = end
	if end != "done" && w.res.HarnessErr == "" && len(w.res.Violations) == 0 {
		w.harnessErr("run did not finish: loop ended with %q", end)
	}
	w.res.Nontrivial = w.res.Probes["acquires"] > 1 || w.res.Probes["event_waits_returned"] > 0
	w.res.Faults["conn_resets"] = snet.N.Stats.Resets
}

func init() {
	kinds["clientlib"] = &kindFn{gen: genClientLib, run: runClientLib}
	propKinds["C19"] = append(propKinds["C19"], struct {
		Kind   string
		Weight int
	}{"clientlib", 10})
}
