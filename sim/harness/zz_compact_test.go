package server

// C16: log compaction preserves the recoverable state, even if interrupted.
//
// A workload runs against a real leader with a small rotation threshold, so that threshold
// compactions happen while requests keep appending; further compactions are triggered the way
// the admin command does it, and (in half of the runs) a restart adds a start-up compaction.
// Every file-system call is in the disk journal together with the task that made it, and each
// compaction runs in a task of its own. For a compaction C and a journal position J inside it
// (or its last call) two directories are rebuilt:
//   with    = everything up to J                     (the process died right after call J)
//   without = everything up to J except C's own calls (the same instant had C never started)
// Both are started by the real start-up path at the same simulated instant and must recover the
// same holds, depths, Count/Rcount, deadlines and values.

import (
	"encoding/json"
	"fmt"
	"path/filepath"
	"strings"
	"time"

	realos "os"

	"github.com/snower/slock/simrt/sos"
	"github.com/snower/slock/simrt/ssched"
)

type CompactPoint struct {
	Comp int  `json:"comp"` // which compaction of the run (modulo the number that happened)
	Step int  `json:"step"` // which of its journalled calls (modulo); ignored when Final
	Fin  bool `json:"final,omitempty"`
}

type CompactBody struct {
	Clients   []ClientSpec   `json:"clients"`
	Clients2  []ClientSpec   `json:"clients2,omitempty"` // after a restart (start-up compaction)
	NKeys     int            `json:"nkeys"`
	NLids     int            `json:"nlids"`
	Dbs       []int          `json:"dbs"`
	TriggerMs []int          `json:"trigger_ms"`
	SettleMs  int            `json:"settle_ms"`
	Points    []CompactPoint `json:"points"`
	// SlowRewriteMs > 0: every write to the compaction's temporary files takes that long (a slow
	// disk), so that appends and log rotations go on while one compaction is running
	SlowRewriteMs int `json:"slow_rewrite_ms,omitempty"`
}

func genCompact(prop string, seed uint64, tier string) *Scenario {
	r := ssched.Sub(seed, "gen")
	pipelineOK = false
	rb := &RestartBody{NKeys: 3 + r.Intn(6), NLids: 2 + r.Intn(4), Dbs: []int{0}}
	if r.Intn(3) == 0 {
		rb.Dbs = []int{0, 2}
	}
	uniq := 0
	body := &CompactBody{NKeys: rb.NKeys, NLids: rb.NLids, Dbs: rb.Dbs, SettleMs: 300 + r.Intn(1500)}
	fix := func(cls []ClientSpec) {
		for ci := range cls {
			for oi := range cls[ci].Ops {
				o := &cls[ci].Ops[oi]
				if o.Cmd == 1 && r.Intn(4) != 0 {
					o.EFlag = (o.EFlag &^ 0x1300) | efAof0
				}
				if o.Cmd == 1 && o.EFlag&efMs == 0 && o.Expried < 30 && o.EFlag&efUnlim == 0 {
					o.Expried = uint16(60 + r.Intn(900))
				}
			}
		}
	}
	body.Clients = genRestartPhaseClients(r, rb, 0, &uniq)
	body.Clients = append(body.Clients, genRestartPhaseClients(r, rb, 0, &uniq)...)
	fix(body.Clients)
	if r.Intn(2) == 0 {
		body.Clients2 = genRestartPhaseClients(r, rb, 1, &uniq)
		fix(body.Clients2)
	}
	if vs := ssched.Sub(seed, "valseq"); vs.Intn(4) == 0 {
		// drawn from a generator of its own: a run of keys taken one after the other, each with a value,
		// persisted at once, the first ones for a few seconds only, the later ones for long: by the time
		// a directory left behind by a dying compaction is started, the values still in force are no
		// longer the sequence that compaction wrote
		var ops []OpSpec
		n := 3 + vs.Intn(4)
		for i := 0; i < n; i++ {
			ex := uint16(600)
			if i < 1+vs.Intn(2) {
				ex = uint16(2 + vs.Intn(3))
			}
			uniq++
			ops = append(ops, OpSpec{Cmd: 1, Key: 100 + i, Lid: 1, Expried: ex, EFlag: efAof0, Count: 0, DelayMs: vs.Intn(30), Wait: true,
				Data: &DataSpec{Op: "set", Val: []byte(fmt.Sprintf("seq%d-%d", i, uniq))}})
		}
		body.Clients = append(body.Clients, ClientSpec{Kind: "mem", StartMs: 20 + vs.Intn(200), Ops: ops})
		if len(body.TriggerMs) == 0 {
			body.TriggerMs = append(body.TriggerMs, 400+vs.Intn(1200))
		}
	}
	if re := ssched.Sub(seed, "reentry"); re.Intn(4) == 0 {
		body.Clients = append(body.Clients, genReentryClient(re, 200))
		body.TriggerMs = append(body.TriggerMs, 3000+re.Intn(4000))
	}
	if rn := ssched.Sub(seed, "renewal"); rn.Intn(4) == 0 {
		body.Clients = append(body.Clients, genRenewalClient(rn, 100))
		// a compaction some seconds after the renewals
		body.TriggerMs = append(body.TriggerMs, 4500+rn.Intn(3000))
	}
	for i, n := 0, r.Intn(4); i < n; i++ {
		body.TriggerMs = append(body.TriggerMs, 300+r.Intn(8000))
	}
	np := 4 + r.Intn(4)
	if tier == "thorough" {
		np = 8 + r.Intn(8)
	}
	for i := 0; i < np; i++ {
		body.Points = append(body.Points, CompactPoint{Comp: r.Intn(64), Step: r.Intn(64), Fin: r.Intn(4) == 0})
	}
	if sl := ssched.Sub(seed, "slowrewrite"); sl.Intn(3) == 0 {
		body.SlowRewriteMs = []int{5, 20, 60, 200}[sl.Intn(4)]
	}
	raw, _ := json.Marshal(body)
	k := genKnobs(r)
	k.AofFileBufferSize = []uint{64, 128, 256, 1024}[r.Intn(4)]
	k.AofFileRewriteSize = []uint{512, 1024, 1024, 2048, 4096}[r.Intn(5)]
	k.DBLockAofTime = uint(r.Intn(2))
	return &Scenario{Knobs: k, Sched: genSched(r, seed), Body: raw, MaxSimS: 6000}
}

type compaction struct {
	task  string
	calls []int // journal indices of its calls, from the create of rewrite.aof.tmp on
	set   map[int]bool
	done  bool  // reached its last rename
}

type compactPair struct {
	pt         CompactPoint
	c          *compaction
	j          int
	what       string
	cls        string
	with, wo   *Node
	swith, swo map[string]*CanonKey
	dwith, dwo string
}

func triggerCompaction(sl *SLock) {
	a := sl.aof
	a.glock.Lock()
	if a.isRewriting || a.isWaitRewite {
		a.glock.Unlock()
		return
	}
	a.glock.Unlock()
	a.aofGlock.Lock()
	_ = a.RewriteAofFile(true)
	a.aofGlock.Unlock()
}

func runCompact(w *World) {
	body := &CompactBody{}
	if err := json.Unmarshal(w.sc.Body, body); err != nil {
		w.harnessErr("bad body: %v", err)
		return
	}
	rr := &restartRun{w: w, body: &RestartBody{NKeys: body.NKeys, NLids: body.NLids, Dbs: body.Dbs}, h: newHistory(w), dir: filepath.Join(w.root, "data")}
	_ = realos.MkdirAll(rr.dir, 0755)
	sos.D.OnOp = func(e *sos.JEntry) {
		w.logf("DISK #%d n%d %s %s %s off=%d len=%d fail=%v [%s]%s", e.Idx, e.Node, e.Op, filepath.Base(e.Path), filepath.Base(e.Path2), e.Off, len(e.Data), e.Fail, e.Task, describeAofWrite(e))
	}
	if body.SlowRewriteMs > 0 {
		sos.D.Inject = func(node int, op, path string, n int, idx int) *sos.Fault {
			if op == "write" && node < 100 && strings.Contains(filepath.Base(path), "rewrite.aof.tmp") {
				w.probe("slow_rewrite_writes")
				return &sos.Fault{Delay: time.Duration(body.SlowRewriteMs) * time.Millisecond}
			}
			return nil
		}
		defer func() { sos.D.Inject = nil }()
	}
	ssched.SpawnOn(0, "compact-driver", func() {
		defer func() { rr.done = true }()
		cfg := w.mkcfg(1, "", "")
		cfg.DataDir = rr.dir
		node := w.boot(1, cfg)
		if !rr.waitReady(node, "first start") {
			return
		}
		for ti, ms := range body.TriggerMs {
			ms := ms
			ssched.SpawnOn(1, fmt.Sprintf("admin-rewrite%d", ti), func() {
				sleep(time.Duration(ms) * time.Millisecond)
				w.fault("admin_compaction")
				triggerCompaction(node.sl)
			})
		}
		rr.runClients(node, 0, body.Clients)
		rr.settle(node, body.SettleMs)
		if w.res.HarnessErr != "" {
			return
		}
		w.kill(1)
		w.fault("kill")
		if len(body.Clients2) > 0 {
			cfg2 := w.mkcfg(2, "", "")
			cfg2.DataDir = rr.dir
			n2 := w.boot(2, cfg2)
			if !rr.waitReady(n2, "restart") {
				return
			}
			rr.runClients(n2, 1, body.Clients2)
			rr.settle(n2, body.SettleMs)
			if w.res.HarnessErr != "" {
				return
			}
			w.kill(2)
			w.fault("kill")
		}
		jEnd := len(sos.D.J)
		// find the compactions: each runs in a task of its own, beginning with the create of the temporary file
		var comps []*compaction
		byTask := map[string]*compaction{}
		for i := 0; i < jEnd; i++ {
			e := &sos.D.J[i]
			if e.Fail || (e.Node != 1 && e.Node != 2) {
				continue
			}
			if e.Op == "create" && filepath.Base(e.Path) == "rewrite.aof.tmp" {
				c := &compaction{task: e.Task, calls: []int{i}, set: map[int]bool{i: true}}
				byTask[e.Task] = c // task names can repeat; a compaction ends where the task's next one begins
				comps = append(comps, c)
				continue
			}
			if c := byTask[e.Task]; c != nil && !c.done {
				c.calls = append(c.calls, i)
				c.set[i] = true
				if e.Op == "rename" && strings.HasSuffix(e.Path, "rewrite.aof.tmp.dat") {
					c.done = true
				}
			}
		}
		w.res.Probes["compactions"] += len(comps)
		for _, c := range comps {
			if c.done {
				w.probe("compactions_completed")
			}
			if strings.Contains(c.task, ".boot/") && !strings.Contains(c.task, "client") {
				w.probe("startup_compactions")
			}
		}
		if len(comps) == 0 {
			return
		}
		var pairs []*compactPair
		seen := map[int]bool{}
		for _, pt := range body.Points {
			c := comps[pt.Comp%len(comps)]
			si := pt.Step % len(c.calls)
			if pt.Fin {
				if !c.done {
					continue
				}
				si = len(c.calls) - 1
			}
			j := c.calls[si]
			if seen[j] {
				continue
			}
			seen[j] = true
			e := &sos.D.J[j]
			p := &compactPair{pt: pt, c: c, j: j}
			target := filepath.Base(e.Path)
			kind := "old_file"
			switch {
			case strings.HasPrefix(target, "rewrite.aof.tmp"):
				kind = "tmp_file"
			case strings.HasPrefix(target, "rewrite.aof"):
				kind = "previous_rewrite_file"
			}
			if si == len(c.calls)-1 && c.done {
				p.cls = "compaction_changed_recoverable_state"
				p.what = fmt.Sprintf("after the compaction run by task %s completed (journal call %d)", c.task, j)
			} else {
				p.cls = fmt.Sprintf("crash_in_compaction_after_%s_%s", e.Op, kind)
				p.what = fmt.Sprintf("process dies right after call %d of %d of the compaction run by task %s (%s %s, journal call %d)", si+1, len(c.calls), c.task, e.Op, target, j)
			}
			p.dwith = filepath.Join(w.root, fmt.Sprintf("cp%d.with", j))
			p.dwo = filepath.Join(w.root, fmt.Sprintf("cp%d.without", j))
			_ = realos.MkdirAll(p.dwith, 0755)
			_ = realos.MkdirAll(p.dwo, 0755)
			if err := sos.D.Materialise(-1, j+1, rr.dir, p.dwith, nil, -1); err != nil {
				w.harnessErr("materialise: %v", err)
				return
			}
			mine := c.set
			if err := sos.D.Materialise(-1, j+1, rr.dir, p.dwo, func(e *sos.JEntry) bool { return !mine[e.Idx] }, -1); err != nil {
				w.harnessErr("materialise: %v", err)
				return
			}
			w.fault("compaction_crash_image")
			w.res.Probes["point_"+strings.TrimPrefix(p.cls, "crash_in_compaction_")]++
			pairs = append(pairs, p)
		}
		id := 100
		for _, p := range pairs {
			c1 := w.mkcfg(id, "", "")
			c1.DataDir = p.dwith
			p.with = w.boot(id, c1)
			id++
			c2 := w.mkcfg(id, "", "")
			c2.DataDir = p.dwo
			p.wo = w.boot(id, c2)
			id++
		}
		for _, p := range pairs {
			if !rr.waitReady(p.wo, "directory without the compaction ("+p.what+")") {
				return
			}
			for i := 0; i < 3000 && p.with.err == nil && !p.with.ready; i++ {
				sleep(10 * time.Millisecond)
			}
			if p.with.err != nil {
				w.violate("C16", strings.Replace(p.cls, "crash_in_compaction", "start_fails_after_crash_in_compaction", 1), "%s: the server does not start on the directory left behind: %v", p.what, p.with.err)
				return
			}
			if !p.with.ready {
				w.harnessErr("node not ready after 30 s (%s)", p.what)
				return
			}
		}
		sleep(300 * time.Millisecond)
		ssched.NoPreempt(func() {
			for _, p := range pairs {
				p.swith = canonSnapshot(p.with.sl)
				p.swo = canonSnapshot(p.wo.sl)
			}
		})
		tainted := rr.taintedKeys()
		// a start-up compaction on a directory that a dying compaction left behind is a compaction like
		// any other: what the first restart recovered, a second restart (after that start-up compaction
		// has run) must recover again
		for _, p := range pairs {
			if !strings.Contains(p.cls, "_tmp_file") || strings.Contains(p.cls, "rename") {
				continue
			}
			for i := 0; i < 1000; i++ {
				a := p.with.sl.aof
				if a == nil || (!a.isRewriting && !a.isWaitRewite) {
					break
				}
				sleep(10 * time.Millisecond)
			}
			sleep(200 * time.Millisecond)
			var first map[string]*CanonKey
			ssched.NoPreempt(func() { first = canonSnapshot(p.with.sl) })
			w.kill(p.with.id)
			c3 := w.mkcfg(id, "", "")
			c3.DataDir = p.dwith
			again := w.boot(id, c3)
			id++
			for i := 0; i < 3000 && again.err == nil && !again.ready; i++ {
				sleep(10 * time.Millisecond)
			}
			if again.err != nil || !again.ready {
				dumpStacks()
				w.violate("C16", "second_start_fails_after_crash_in_compaction", "%s: the server started once on the directory left behind, ran its start-up compaction, and does not start a second time: %v", p.what, again.err)
				p.with = again
				continue
			}
			sleep(300 * time.Millisecond)
			var second map[string]*CanonKey
			ssched.NoPreempt(func() { second = canonSnapshot(again.sl) })
			p.with = again
			w.probe("second_restarts_compared")
			// time has passed between the two restarts: holds whose term ends about then may be gone
			cut := w.now().Unix() + 3
			for _, snap := range []map[string]*CanonKey{first, second} {
				for k, ck := range snap {
					var keep []CanonHold
					for _, h := range ck.Holds {
						// (holds with millisecond terms get their full term again at every restart, F21:
						// what becomes of them across two restarts is not judged here)
						if h.EFlag&efMs == 0 && (h.EFlag&efUnlim != 0 || h.Deadline > cut+deadlineUnit(h.EFlag)) {
							keep = append(keep, h)
						}
					}
					if len(keep) != len(ck.Holds) {
						// the key's other holds and its value depend on the one that ended: not compared
						delete(first, k)
						delete(second, k)
					}
				}
			}
			if ok, d := sameRecovered(first, second); !ok {
				cls := "startup_compaction_after_crash_changed_recoverable_state"
				if onlyTaintedDiffer(first, second, tainted, nil) {
					cls = "relock_" + cls
				} else if onlyTaintedDiffer(first, second, tainted, rr) {
					cls = "endedhold_value_" + cls
				}
				w.violate("C16", cls, "%s: the first restart on the directory left behind recovers %s; after its start-up compaction a second restart recovers %s (%s)", p.what, canonSig(heldOnly(first), false), canonSig(heldOnly(second), false), d)
			}
		}
		for _, p := range pairs {
			w.kill(p.with.id)
			w.kill(p.wo.id)
			w.probe("compaction_points_compared")
			if len(heldOnly(p.swo)) > 0 {
				w.probe("compaction_points_with_state")
			}
			if p.cls == "compaction_changed_recoverable_state" {
				// a completed compaction filters the records by the lock table of its moment, while the
				// uncompacted files hold what had reached them by journal call j: a key whose state
				// changed in memory in the last 200 ms before that call (the persistence channels flush when idle) (a release or an expiry whose record
				// may still be on its way to the file) legitimately differs between the two until that
				// record lands; such keys are left out here (every other key, and every crash point, is
				// compared in full)
				for k := range inFlux(rr.h, sos.D.J[p.j].Step, sos.D.J[p.j].Step) {
					if p.swith[k] != nil || p.swo[k] != nil {
						w.probe("compaction_keys_in_flux_left_out")
					}
					delete(p.swith, k)
					delete(p.swo, k)
				}
			}
			ok, d := sameRecovered(p.swith, p.swo)
			w.logf("POINT j=%d %s same=%v\n   with:    %s\n   without: %s", p.j, p.what, ok, canonSig(heldOnly(p.swith), true), canonSig(heldOnly(p.swo), true))
			if !ok {
				cls := p.cls
				// keys whose holds had their terms changed after the grant recover differently from
				// differently shaped logs (finding F22): reported under their own class
				if onlyTaintedDiffer(p.swith, p.swo, tainted, nil) {
					cls = "relock_" + cls
				} else if onlyTaintedDiffer(p.swith, p.swo, tainted, rr) {
					// ... or only in a value that a request of an ended hold (or an unlock) had written:
					// replaying the uncompacted records resurrects or loses it (finding F26)
					cls = "endedhold_value_" + cls
				}
				w.violate("C16", cls, "%s: recovering from the directory as it is then gives %s; recovering from the same instant without that compaction gives %s (%s)", p.what, canonSig(heldOnly(p.swith), false), canonSig(heldOnly(p.swo), false), d)
			}
		}
	})
	end := w.S.Loop(func() bool {
		if len(w.S.Panics) > 0 {
			p := w.S.Panics[0]
			w.violate(w.sc.Prop, "server_crash@"+panicSite(p.Stack), "a server goroutine panicked: %s [task %s]", p.Value, p.Task)
			return true
		}
		return rr.done && w.S.ReadyLen() == 0 || len(w.res.Violations) > 0
	}, time.Duration(w.sc.MaxSimS)*time.Second)
	w.res.LoopEnd = end
	if end != "done" && w.res.HarnessErr == "" && len(w.res.Violations) == 0 {
		w.harnessErr("compaction run did not finish: loop ended with %q", end)
	}
	w.res.Nontrivial = w.res.Probes["compaction_points_with_state"] > 0
	w.res.Faults["disk_writes"] = sos.D.Stats.Writes
}

// onlyTaintedDiffer: every key on which the two snapshots differ is a key with changed terms.
func onlyTaintedDiffer(a, b map[string]*CanonKey, tainted map[string]bool, rr *restartRun) bool {
	a, b = heldOnly(a), heldOnly(b)
	keys := map[string]bool{}
	for k := range a {
		keys[k] = true
	}
	for k := range b {
		keys[k] = true
	}
	for k := range keys {
		x, y := a[k], b[k]
		same := x != nil && y != nil
		if same {
			ok, _ := sameRecovered(map[string]*CanonKey{k: x}, map[string]*CanonKey{k: y})
			same = ok
		}
		if !same && !tainted[k] {
			if rr != nil && x != nil && y != nil && sameHolds(x, y) && (rr.valueTouchedByEndedHold(k, x) || rr.valueTouchedByEndedHold(k, y)) {
				continue
			}
			return false
		}
	}
	return true
}

func sameHolds(x, y *CanonKey) bool {
	xv, yv := *x, *y
	xv.HasV, xv.Val, yv.HasV, yv.Val = false, "", false, ""
	ok, _ := sameRecovered(map[string]*CanonKey{"k": &xv}, map[string]*CanonKey{"k": &yv})
	return ok
}

func init() {
	kinds["compact"] = &kindFn{gen: genCompact, run: runCompact}
	propKinds["C16"] = append(propKinds["C16"], struct {
		Kind   string
		Weight int
	}{"compact", 10})
}

// inFlux: keys ("db/key" as in canonSnapshot) on which some request was answered (grant, release,
// expiry notice) between 200 ms before the scheduler step fromStep and 100 ms after toStep.
func inFlux(h *History, fromStep, toStep uint64) map[string]bool {
	var tFrom, tTo time.Time
	for _, r := range h.order {
		if r.InvStep <= fromStep && r.InvT.After(tFrom) {
			tFrom = r.InvT
		}
		for _, rep := range r.Replies {
			if rep.Step <= fromStep && rep.T.After(tFrom) {
				tFrom = rep.T
			}
			if rep.Step >= toStep && (tTo.IsZero() || rep.T.Before(tTo)) {
				tTo = rep.T
			}
		}
		if r.InvStep >= toStep && (tTo.IsZero() || r.InvT.Before(tTo)) {
			tTo = r.InvT
		}
	}
	out := map[string]bool{}
	for _, r := range h.order {
		for _, rep := range r.Replies {
			if rep.T.Before(tFrom.Add(-200 * time.Millisecond)) {
				continue
			}
			if !tTo.IsZero() && rep.T.After(tTo.Add(100*time.Millisecond)) {
				continue
			}
			out[fmt.Sprintf("%d/%x", r.Op.Db, keyBytes(r.Op.Key))] = true
		}
	}
	return out
}
