package server

// Simulation harness: scenario kind "election" (C12 at message level).
//
// 3-5 members (data members of different weights, weight-0 members, arbiters; log positions from a history
// of appends and rotations, with file indexes around ordinary values, the middle and the wrap-around of
// the index space; cached views of
// the other members' positions exact or stale). Every member is a real ArbiterManager with its real
// ArbiterVoter; the ArbiterClient of every member writes its REPL_VOTE / REPL_PROPOSAL / REPL_COMMIT
// requests into a connection the harness owns. Nothing moves by itself: a driver picks, with the
// run's PRNG, which outstanding request or reply is delivered next (any order), which is lost (the
// requester sees a failed call, as when the connection breaks), and when a member is restarted from
// its saved metadata (real ArbiterStore.Save at the start, real ArbiterManager.Load at the restart;
// only what meta.pb holds survives). A delivered request is handled by the real
// commandHandleVoteCommand / commandHandleProposalCommand / commandHandleCommitCommand of the member
// it is addressed to. 2-3 members are candidates: each runs the candidacy of ArbiterVoter.StartVote
// (DoVote, DoProposal, DoCommit) up to three times. No announcement and no offline event exists in
// this world (they legitimately clear a pending commit).
//
// Oracles:
//   - per member and incarnation, the accepted proposal number and the committed number never
//     decrease (read at every release of the voter's lock);
//   - an acceptor accepts a proposal only above what it has accepted and committed, never while a
//     commit is outstanding, and, carrying data, never when its own log is newer than the proposed
//     position; it commits only the number it has accepted, once;
//   - a vote round that succeeds had answers from a majority and names a data-bearing member of
//     non-zero weight with the newest position among the answers (ties: the highest weight); a
//     proposal round that succeeds had a majority of acceptances and no refusal; a commit round that
//     succeeds had a majority of acceptances;
//   - at most one candidacy's commit round succeeds in a run. When every member that took part in
//     both commit majorities was restarted in between, the violation is the restart clause's (an
//     accepted commit is kept in memory only).

import (
	"encoding/json"
	"fmt"
	"path/filepath"
	"sort"
	"strings"
	"time"

	realos "os"

	"github.com/snower/slock/client"
	"github.com/snower/slock/protocol"
	"github.com/snower/slock/protocol/protobuf"
	"github.com/snower/slock/simrt/snet"
	"github.com/snower/slock/simrt/ssched"
	"google.golang.org/protobuf/proto"
)

type ELMember struct {
	Weight  uint32 `json:"weight"`
	Arbiter uint32 `json:"arbiter"`
	Pos     int    `json:"pos"`   // log position in records beyond the base
	Time    int    `json:"time"`  // command time rank (decides between equal positions)
	Stale   []int  `json:"stale"` // Stale[i]: how many records member i's cached view of this member lags
}

type ELCand struct {
	Member     int `json:"member"`
	Attempts   int `json:"attempts"`
	StartAfter int `json:"start_after"` // delivery step after which the candidacy may start
}

type ELRestart struct {
	Member      int  `json:"member"`
	AtStep      int  `json:"at_step"`
	Recandidate bool `json:"recandidate,omitempty"`
}

// ELPos is one position of the cluster's log history: file number (counted from the base index) and
// record count inside that file. A rotation starts a new file at a small count.
type ELPos struct {
	File int    `json:"file"`
	Off  uint32 `json:"off"`
}

type ELBody struct {
	Members []ELMember `json:"members"`
	// Chain: the positions the log went through, oldest first; ELMember.Pos indexes it
	Chain      []ELPos `json:"chain"`
	BaseIndex  uint32  `json:"base_index"`
	SavedCommit uint64      `json:"saved_commit"`
	Cands       []ELCand    `json:"cands"`
	LossPermil  int         `json:"loss_permil"`
	Restarts    []ELRestart `json:"restarts,omitempty"`
	MaxSteps    int         `json:"max_steps"`
	// Script, if present, replaces the PRNG for the first len(Script) decisions of the driver (which
	// event happens next, and whether a delivered message is lost instead): value = 2*choice + lost.
	// A failing run reports the decisions it took, so that the replay file carries the schedule
	// itself and the minimiser can shorten it.
	Script []int `json:"script,omitempty"`
}

func genElection(prop string, seed uint64, tier string) *Scenario {
	r := ssched.Sub(seed, "gen")
	n := 3 + r.Intn(3)
	if r.Intn(2) == 0 {
		n = 3
	}
	body := &ELBody{SavedCommit: uint64(r.Intn(4)), MaxSteps: 400}
	switch r.Intn(5) {
	case 0: // the file index wraps around inside the history (the index after 0xffffffff is 1)
		body.BaseIndex = 0xffffffff - uint32(r.Intn(3))
	case 1: // the middle of the index space
		body.BaseIndex = 0x7ffffffe + uint32(r.Intn(2))
	default:
		body.BaseIndex = uint32(1 + r.Intn(40))
	}
	// the history: records are appended, now and then the log rotates to a new file that starts at a small count
	cur := ELPos{File: 0, Off: uint32(1 + r.Intn(3000))}
	rot := []int{0, 250, 250, 600}[r.Intn(4)] // permille of steps that are a rotation
	for i := 0; i < 9; i++ {
		body.Chain = append(body.Chain, cur)
		if r.Intn(1000) < rot {
			cur = ELPos{File: cur.File + 1, Off: uint32(1 + r.Intn(4))}
		} else {
			cur.Off += uint32(1 + r.Intn(40))
		}
	}
	arbiters, zeros := 0, 0
	mix := r.Intn(6) // 0,1: data members only
	spread := r.Intn(3)
	for i := 0; i < n; i++ {
		m := ELMember{Weight: uint32(1 + r.Intn(3))}
		if r.Intn(2) == 0 {
			m.Weight = 1
		}
		switch {
		case mix >= 2 && mix <= 3 && i > 0 && arbiters < (n-1)/2 && r.Intn(2) == 0:
			m.Arbiter, m.Weight = 1, 0
			arbiters++
		case mix >= 3 && i > 0 && zeros < n-2 && r.Intn(2) == 0:
			m.Weight = 0
			zeros++
		}
		switch spread {
		case 0: // all equal
			m.Pos = 3
		case 1:
			m.Pos = r.Intn(3)
		default:
			m.Pos = r.Intn(8)
		}
		m.Time = r.Intn(2)
		for j := 0; j < n; j++ {
			st := 0
			if r.Intn(3) == 0 && m.Pos > 0 {
				st = 1 + r.Intn(m.Pos)
			}
			m.Stale = append(m.Stale, st)
		}
		body.Members = append(body.Members, m)
	}
	// candidates: members that can stand (the real voter loop runs on every member, arbiters and
	// weight-0 members included: they propose somebody else)
	nc := 2 + r.Intn(2)
	perm := make([]int, n)
	for i := range perm {
		perm[i] = i
	}
	for i := n - 1; i > 0; i-- {
		j := r.Intn(i + 1)
		perm[i], perm[j] = perm[j], perm[i]
	}
	for i := 0; i < nc && i < n; i++ {
		body.Cands = append(body.Cands, ELCand{Member: perm[i], Attempts: 1 + r.Intn(3), StartAfter: []int{0, 0, r.Intn(6), r.Intn(25)}[r.Intn(4)]})
	}
	body.LossPermil = []int{0, 0, 50, 150, 300, 500}[r.Intn(6)]
	if r.Intn(10) < 3 {
		for k := 1 + r.Intn(2); k > 0; k-- {
			body.Restarts = append(body.Restarts, ELRestart{Member: r.Intn(n), AtStep: 2 + r.Intn(40), Recandidate: r.Intn(3) == 0})
		}
	}
	raw, _ := json.Marshal(body)
	return &Scenario{Knobs: genKnobs(r), Sched: genSched(r, seed), Body: raw, MaxSimS: 600}
}

// elConn is the connection an ArbiterClient writes its requests into: complete requests become
// messages the driver delivers or loses.
type elConn struct {
	run      *elRun
	from, to int
	inc      *elInc // incarnation of the sender
	buf      []byte
}

func (c *elConn) Read(b []byte) (int, error) {
	ssched.Block(make(chan struct{}))
	return 0, snet.ErrClosed
}
func (c *elConn) Write(b []byte) (int, error) {
	c.buf = append(c.buf, b...)
	for len(c.buf) >= 64 {
		cmd := &protocol.CallCommand{}
		if err := cmd.Decode(c.buf[:64]); err != nil {
			return 0, err
		}
		if len(c.buf) < 64+int(cmd.ContentLen) {
			break
		}
		cmd.Data = append([]byte(nil), c.buf[64:64+int(cmd.ContentLen)]...)
		c.buf = c.buf[64+int(cmd.ContentLen):]
		c.run.sent(c, cmd)
	}
	return len(b), nil
}
func (c *elConn) Close() error                       { return nil }
func (c *elConn) LocalAddr() snet.Addr               { return &snet.TCPAddr{} }
func (c *elConn) RemoteAddr() snet.Addr              { return &snet.TCPAddr{} }
func (c *elConn) SetDeadline(t time.Time) error      { return nil }
func (c *elConn) SetReadDeadline(t time.Time) error  { return nil }
func (c *elConn) SetWriteDeadline(t time.Time) error { return nil }

// elInc is one incarnation of a member.
type elInc struct {
	idx    int
	no     int
	nodeId int
	mgr    *ArbiterManager
	ready  bool
	dead   bool
	// acceptor state at the last acquisition of the voter's lock
	p0, c0  uint64
	h0      string
	maxP    uint64
	maxC    uint64
	attempt *elAttempt // the candidacy this incarnation is running, if any
	cand    int        // candidate task: 0 none, 1 running, 2 over
	handled map[*ssched.Task]*elMsg
}

type elAttempt struct {
	inc        *elInc
	no         int
	voteOK     []int // members whose answer to the vote request was delivered
	propOK     int
	propReject int
	commitOK   int
	selfProp   bool
	selfCommit bool
	number     uint64
	host       string
	acceptors  map[int]int // member -> incarnation number that accepted this candidacy's commit
	propFrom   map[int]int // member -> incarnation whose acceptance of the proposal the candidate has seen (itself included)
	commitFrom map[int]int // the same for the commit
	active     bool
}

type elMsg struct {
	id       int
	reply    bool
	from, to int // request: from -> to; reply: the same pair (from is the requester)
	fromInc  *elInc
	toInc    *elInc
	cmd      *protocol.CallCommand
	res      *protocol.CallResultCommand
	attempt  *elAttempt
	handling bool
}

type elRun struct {
	w       *World
	body    *ELBody
	incs    []*elInc                // current incarnation of every member
	idents  [][]*BinaryServerProtocol // idents[from][to]: what member `to` sees of the connection `from` opened to it
	pending []*elMsg
	nextId  int
	wins    []*elAttempt
	active  int
	done    int
	started int
	tasks   int
	rr      *ssched.Rand
	steps   int
	si      int   // next script entry
	trace   []int // decisions taken
}

func elHost(i int) string { return fmt.Sprintf("127.0.0.1:%d", 5210+i) }

// position number pos of the history, as the 16-byte position of the code under test
func (run *elRun) posId(pos int, t int) [16]byte {
	if pos < 0 {
		pos = 0
	}
	if pos >= len(run.body.Chain) {
		pos = len(run.body.Chain) - 1
	}
	p := run.body.Chain[pos]
	idx := uint64(run.body.BaseIndex) + uint64(p.File)
	if idx > 0xffffffff {
		idx -= 0xffffffff // the file index after 0xffffffff is 1
	}
	al := NewAofLock()
	al.AofIndex, al.AofOffset, al.CommandTime = uint32(idx), p.Off, uint64(1700000000+t)
	return al.GetAofId()
}

// newer: the reference order of log positions (records beyond the base, then command time)
func elNewer(a, b ELMember) int {
	switch {
	case a.Pos != b.Pos:
		if a.Pos > b.Pos {
			return 1
		}
		return -1
	case a.Time != b.Time:
		if a.Time > b.Time {
			return 1
		}
		return -1
	}
	return 0
}

func (run *elRun) sent(c *elConn, cmd *protocol.CallCommand) {
	run.nextId++
	m := &elMsg{id: run.nextId, from: c.from, to: c.to, fromInc: c.inc, toInc: nil, cmd: cmd, attempt: c.inc.attempt}
	run.pending = append(run.pending, m)
	run.w.logf("EL send #%d %s m%d -> m%d", m.id, cmd.MethodName, c.from, c.to)
}

// start builds one incarnation of member i on a node of its own.
func (run *elRun) start(i int, no int) *elInc {
	w := run.w
	inc := &elInc{idx: i, no: no, nodeId: 10*(i+1) + no, handled: map[*ssched.Task]*elMsg{}}
	dir := filepath.Join(w.root, fmt.Sprintf("el%d", i))
	_ = realos.MkdirAll(dir, 0755)
	cfg := w.mkcfg(inc.nodeId, "", "el")
	cfg.DataDir, cfg.Port = dir, uint(5210+i)
	node := &Node{id: inc.nodeId, cfg: cfg, addr: elHost(i), dir: dir, up: true}
	w.nodes[inc.nodeId] = node
	ssched.SpawnOn(inc.nodeId, fmt.Sprintf("el%d.%d.start", i, no), func() {
		sl := NewSLock(cfg, w.logger)
		node.dsp = defaultServerProtocol
		node.sl = sl
		mgr := NewArbiterManager(sl, "el")
		sl.arbiterManager = mgr
		if no == 0 {
			mgr.gid = "el-gid"
			for j, ms := range run.body.Members {
				member := NewArbiterMember(mgr, elHost(j), ms.Weight, ms.Arbiter)
				if j == i {
					member.isSelf = true
					mgr.ownMember = member
				}
				mgr.members = append(mgr.members, member)
			}
			mgr.voter.commitId, mgr.voter.proposalId = run.body.SavedCommit, run.body.SavedCommit
			if err := mgr.store.Save(mgr); err != nil {
				w.harnessErr("election: saving the metadata of member %d: %v", i, err)
				return
			}
		} else {
			if err := mgr.Load(); err != nil {
				w.harnessErr("election: member %d restart: loading the metadata: %v", i, err)
				return
			}
			if mgr.ownMember == nil || len(mgr.members) != len(run.body.Members) {
				w.harnessErr("election: member %d restart: metadata holds %d members", i, len(mgr.members))
				return
			}
		}
		own := run.body.Members[i]
		sl.replicationManager.currentAofId = run.posId(own.Pos, own.Time)
		for j, member := range mgr.members {
			ms := run.body.Members[j]
			if ms.Arbiter != 0 {
				member.role = ARBITER_ROLE_ARBITER
			} else {
				member.role = ARBITER_ROLE_FOLLOWER
			}
			member.status = ARBITER_MEMBER_STATUS_ONLINE
			member.aofId = run.posId(ms.Pos-ms.Stale[i], ms.Time)
			if j == i {
				// the member's view of itself is refreshed by the status poll like the others: it may lag its log
				continue
			}
			member.server = &ArbiterServer{member, nil, run.idents[j][i], false, make(chan struct{})}
			ac := NewArbiterClient(member)
			ac.stream = client.NewStream(&elConn{run: run, from: i, to: j, inc: inc})
			ac.protocol = client.NewBinaryClientProtocol(ac.stream)
			member.client = ac
		}
		v := mgr.voter
		inc.maxP, inc.maxC = v.proposalId, v.commitId
		v.glock.OnAcquire = func() { inc.p0, inc.c0, inc.h0 = v.proposalId, v.commitId, v.proposalHost }
		v.glock.OnRelease = func() { run.released(inc) }
		inc.mgr = mgr
		inc.ready = true
		w.logf("EL member m%d.%d ready: weight %d arbiter %d pos %d/%d accepted %d committed %d", i, no, own.Weight, own.Arbiter, own.Pos, own.Time, v.proposalId, v.commitId)
	})
	return inc
}

// released runs inside every release of the voter lock of an incarnation: the acceptor rules.
func (run *elRun) released(inc *elInc) {
	w := run.w
	if inc.dead {
		return
	}
	v := inc.mgr.voter
	p1, c1 := v.proposalId, v.commitId
	who := fmt.Sprintf("member m%d (incarnation %d)", inc.idx, inc.no)
	if p1 < inc.maxP {
		w.violate("C12", "proposal_number_decreased", "%s: accepted proposal number went from %d to %d", who, inc.maxP, p1)
	}
	if c1 < inc.maxC {
		w.violate("C12", "commit_number_decreased", "%s: committed number went from %d to %d", who, inc.maxC, c1)
	}
	if p1 > inc.maxP {
		inc.maxP = p1
	}
	if c1 > inc.maxC {
		inc.maxC = c1
	}
	if p1 == inc.p0 && c1 == inc.c0 {
		return
	}
	_, stack := stackClass()
	has := func(s string) bool { return strings.Contains(stack, s) }
	msg := inc.handled[ssched.CurrentTask()]
	own := run.body.Members[inc.idx]
	switch {
	case has("commandHandleProposalCommand") || has("DoSelfProposal"):
		if p1 == inc.p0 {
			return
		}
		w.probe("el_proposals_accepted")
		var proposed [16]byte
		var att *elAttempt
		if msg != nil && has("commandHandleProposalCommand") {
			req := protobuf.ArbiterProposalRequest{}
			_ = proto.Unmarshal(msg.cmd.Data, &req)
			proposed, _ = ParseAofId(req.AofId)
			att = msg.attempt
		} else {
			proposed = v.voteAofId
			att = inc.attempt
			if att != nil {
				att.selfProp = true
				att.propFrom[inc.idx] = inc.no
			}
		}
		if p1 <= inc.p0 || p1 <= inc.c0 {
			w.violate("C12", "acceptor_accepted_proposal_not_above_its_numbers", "%s accepted proposal %d although it had accepted %d and committed %d", who, p1, inc.p0, inc.c0)
		}
		if inc.h0 != "" {
			w.violate("C12", "acceptor_accepted_proposal_while_commit_outstanding", "%s accepted proposal %d although the commit %d it has accepted for %s is outstanding (no announcement, no offline event)", who, p1, inc.c0, inc.h0)
		}
		if own.Arbiter == 0 {
			// the proposed position against this member's own log, in the reference order
			for _, cand := range run.posTable() {
				if cand.id == proposed && elNewer(own, ELMember{Pos: cand.pos, Time: cand.t}) > 0 {
					w.violate("C12", "newer_log_accepted_older_proposal", "%s (weight %d), whose own log is at record %d/%d, accepted proposal %d for a log at record %d/%d: a member with a newer log must refuse", who, own.Weight, own.Pos, own.Time, p1, cand.pos, cand.t)
					break
				}
			}
		}
	case has("commandHandleCommitCommand") || has("DoSelfCommit"):
		if c1 == inc.c0 {
			return
		}
		w.probe("el_commits_accepted")
		if c1 != inc.p0 || c1 <= inc.c0 {
			w.violate("C12", "acceptor_committed_unaccepted_number", "%s committed number %d although the number it has accepted is %d (committed before: %d)", who, c1, inc.p0, inc.c0)
		}
		att := inc.attempt
		if msg != nil && has("commandHandleCommitCommand") {
			att = msg.attempt
		} else if att != nil {
			att.selfCommit = true
			att.commitFrom[inc.idx] = inc.no
		}
		if att != nil {
			att.acceptors[inc.idx] = inc.no
		}
	}
}

type elPos struct {
	id  [16]byte
	pos int
	t   int
}

// posTable: every position this world can name, with its place in the reference order
func (run *elRun) posTable() []elPos {
	var out []elPos
	for pos := 0; pos < len(run.body.Chain); pos++ {
		for t := 0; t < 2; t++ {
			out = append(out, elPos{run.posId(pos, t), pos, t})
		}
	}
	return out
}

func (run *elRun) lookupPos(id [16]byte) (elPos, bool) {
	for _, p := range run.posTable() {
		if p.id == id {
			return p, true
		}
	}
	return elPos{}, false
}

// candidate runs the candidacies of one incarnation the way ArbiterVoter.StartVote does.
func (run *elRun) candidate(inc *elInc, attempts int) {
	w := run.w
	run.tasks++
	inc.cand = 1
	ssched.SpawnOn(inc.nodeId, fmt.Sprintf("el%d.%d.candidate", inc.idx, inc.no), func() {
		defer func() {
			if inc.cand == 1 {
				inc.cand = 2
				run.done++
			}
		}()
		sub := ssched.Sub(w.sc.Seed, fmt.Sprintf("cand%d.%d", inc.idx, inc.no))
		v := inc.mgr.voter
		own := inc.mgr.ownMember.host
		for a := 0; a < attempts; a++ {
			// top of the voter's loop: a member that holds somebody else's commit waits for the announcement
			if v.proposalHost != "" && v.proposalHost != own {
				w.logf("EL candidate m%d waits for the announcement of %s", inc.idx, v.proposalHost)
				w.probe("el_candidates_waiting_for_announcement")
				break
			}
			att := &elAttempt{inc: inc, no: a, acceptors: map[int]int{}, propFrom: map[int]int{}, commitFrom: map[int]int{}, active: true}
			inc.attempt = att
			run.active++
			if run.active > 1 {
				w.probe("el_overlapping_candidacies")
			}
			w.probe("el_candidacies")
			err := v.DoVote()
			w.logf("EL candidate m%d.%d attempt %d vote: %v host %s answers %v", inc.idx, inc.no, a, err, v.voteHost, att.voteOK)
			if err == nil {
				run.checkVote(inc, att)
				err = v.DoProposal()
				att.number, att.host = v.proposalIndex, v.voteHost
				w.logf("EL candidate m%d.%d attempt %d proposal %d for %s: %v (accepted by %d + self %v, refused by %d)", inc.idx, inc.no, a, att.number, att.host, err, att.propOK, att.selfProp, att.propReject)
				if err == nil {
					w.probe("el_proposal_rounds_passed")
					run.checkRound(inc, att, "proposal")
					err = v.DoCommit()
					w.logf("EL candidate m%d.%d attempt %d commit %d for %s: %v (accepted by %d + self %v)", inc.idx, inc.no, a, att.number, att.host, err, att.commitOK, att.selfCommit)
					if err == nil {
						run.checkRound(inc, att, "commit")
						run.won(att)
					}
				}
			}
			att.active = false
			run.active--
			inc.attempt = nil
			if err == nil {
				break
			}
			sleep(time.Duration(1+sub.Intn(40)) * time.Millisecond)
		}
	})
}

func (run *elRun) checkVote(inc *elInc, att *elAttempt) {
	w := run.w
	v := inc.mgr.voter
	n := len(run.body.Members)
	answers := append([]int{inc.idx}, att.voteOK...)
	who := fmt.Sprintf("candidate m%d", inc.idx)
	if len(answers) < n/2+1 {
		w.violate("C12", "vote_round_passed_without_majority", "%s: the vote round succeeded with answers from %v only (%d members)", who, answers, n)
		return
	}
	var best []int
	for _, j := range answers {
		m := run.body.Members[j]
		if m.Arbiter != 0 || m.Weight == 0 {
			continue
		}
		if len(best) == 0 {
			best = []int{j}
			continue
		}
		b := run.body.Members[best[0]]
		switch c := elNewer(m, b); {
		case c > 0 || (c == 0 && m.Weight > b.Weight):
			best = []int{j}
		case c == 0 && m.Weight == b.Weight:
			best = append(best, j)
		}
	}
	if len(best) == 0 {
		w.violate("C12", "proposed_member_not_electable", "%s: the vote round succeeded and names %s although no data-bearing member of non-zero weight answered (answers from %v)", who, v.voteHost, answers)
		return
	}
	w.probe("el_vote_rounds_checked")
	for _, j := range best {
		if elHost(j) == v.voteHost {
			m := run.body.Members[j]
			if v.voteAofId != run.posId(m.Pos, m.Time) {
				w.violate("C12", "proposed_position_wrong", "%s: proposes %s with position %x, its log is at %x", who, v.voteHost, v.voteAofId, run.posId(m.Pos, m.Time))
			}
			return
		}
	}
	desc := ""
	for _, j := range answers {
		m := run.body.Members[j]
		desc += fmt.Sprintf(" m%d(%s weight %d arbiter %d record %d/%d)", j, elHost(j), m.Weight, m.Arbiter, m.Pos, m.Time)
	}
	w.violate("C12", "proposed_member_not_newest", "%s: the vote round names %s; among the answers%s the newest electable log (ties: highest weight) is on %v", who, v.voteHost, desc, best)
}

func (run *elRun) checkRound(inc *elInc, att *elAttempt, round string) {
	w := run.w
	n := len(run.body.Members)
	cnt, self := att.propOK, att.selfProp
	if round == "commit" {
		cnt, self = att.commitOK, att.selfCommit
	}
	if self {
		cnt++
	}
	if cnt < n/2+1 {
		w.violate("C12", round+"_round_passed_without_majority", "candidate m%d: the %s round for number %d succeeded with %d acceptances of %d members", inc.idx, round, att.number, cnt, n)
	}
	if round == "proposal" && att.propReject > 0 {
		w.violate("C12", "proposal_round_passed_despite_refusal", "candidate m%d: the proposal round for number %d succeeded although %d members with a newer log refused", inc.idx, att.number, att.propReject)
	}
}

func (run *elRun) won(att *elAttempt) {
	w := run.w
	w.probe("el_candidacies_won")
	w.logf("EL WIN candidate m%d.%d number %d for %s acceptors %v", att.inc.idx, att.inc.no, att.number, att.host, att.acceptors)
	maj := len(run.body.Members)/2 + 1
	for _, prev := range run.wins {
		// would the second candidacy have passed its rounds without the members that had accepted the
		// first one's commit and were restarted from their metadata afterwards?
		restarted := func(m, no int) bool { pno, ok := prev.acceptors[m]; return ok && no > pno }
		p2, c2, nr := 0, 0, 0
		for m, no := range att.propFrom {
			if restarted(m, no) {
				nr++
			} else {
				p2++
			}
		}
		for m, no := range att.commitFrom {
			if restarted(m, no) {
				nr++
			} else {
				c2++
			}
		}
		class, why := "two_candidacies_won", ""
		if nr > 0 && (p2 < maj || c2 < maj) {
			class = "second_winner_after_restart_from_metadata"
			why = "; the second candidacy needed members that had accepted the first one's commit and were restarted from their saved metadata afterwards (an accepted commit is kept in memory only)"
		}
		w.violate("C12", class, "two candidacies gathered commit majorities with no announcement or offline event in between: candidate m%d number %d for %s (commit accepted by member->incarnation %v) and candidate m%d number %d for %s (proposal accepted by %v, commit by %v)%s",
			prev.inc.idx, prev.number, prev.host, prev.acceptors, att.inc.idx, att.number, att.host, att.propFrom, att.commitFrom, why)
	}
	run.wins = append(run.wins, att)
}

// deliver hands a request to the real handler of the addressed member, or a reply to the requester.
func (run *elRun) deliver(m *elMsg, lost bool) {
	w := run.w
	if !m.reply {
		to := run.incs[m.to]
		if m.fromInc.dead {
			return
		}
		if lost || to == nil || !to.ready || to.dead {
			w.fault("election_request_lost")
			w.logf("EL lose request #%d %s m%d -> m%d", m.id, m.cmd.MethodName, m.from, m.to)
			run.answer(m, nil)
			return
		}
		m.toInc, m.handling = to, true
		run.pending = append(run.pending, m) // stays listed while it is handled (a restart of the target loses it)
		w.logf("EL deliver request #%d %s m%d -> m%d", m.id, m.cmd.MethodName, m.from, m.to)
		ssched.SpawnOn(to.nodeId, fmt.Sprintf("el%d.%d.handle#%d", to.idx, to.no, m.id), func() {
			tk := ssched.CurrentTask()
			to.handled[tk] = m
			var res *protocol.CallResultCommand
			ident := run.idents[m.from][m.to]
			switch m.cmd.MethodName {
			case "REPL_VOTE":
				res, _ = to.mgr.commandHandleVoteCommand(ident, m.cmd)
			case "REPL_PROPOSAL":
				res, _ = to.mgr.commandHandleProposalCommand(ident, m.cmd)
			case "REPL_COMMIT":
				res, _ = to.mgr.commandHandleCommitCommand(ident, m.cmd)
			default:
				res = protocol.NewCallResultCommand(m.cmd, 0, "ERR_UNKNOWN_COMMAND", nil)
				w.probe("el_other_requests")
			}
			delete(to.handled, tk)
			for i, p := range run.pending {
				if p == m {
					run.pending = append(run.pending[:i], run.pending[i+1:]...)
					break
				}
			}
			m.handling = false
			run.nextId++
			run.pending = append(run.pending, &elMsg{id: run.nextId, reply: true, from: m.from, to: m.to, fromInc: m.fromInc, toInc: to, cmd: m.cmd, res: res, attempt: m.attempt})
		})
		return
	}
	if m.fromInc.dead {
		return
	}
	if lost || m.toInc.dead {
		w.fault("election_reply_lost")
		w.logf("EL lose reply #%d %s m%d <- m%d (%s)", m.id, m.cmd.MethodName, m.from, m.to, m.res.ErrType)
		run.answer(m, nil)
		return
	}
	w.logf("EL deliver reply #%d %s m%d <- m%d: %q", m.id, m.cmd.MethodName, m.from, m.to, m.res.ErrType)
	run.answer(m, m.res)
}

// answer completes the requester's call: with the reply, or (nil) the way a broken connection does.
func (run *elRun) answer(m *elMsg, res *protocol.CallResultCommand) {
	if att := m.attempt; att != nil && res != nil {
		ok := res.Result == 0 && res.ErrType == ""
		switch m.cmd.MethodName {
		case "REPL_VOTE":
			if ok {
				att.voteOK = append(att.voteOK, m.to)
			}
		case "REPL_PROPOSAL":
			if ok {
				att.propOK++
				if m.toInc != nil {
					att.propFrom[m.to] = m.toInc.no
				}
			} else if res.ErrType == "ERR_REJECT" {
				att.propReject++
				run.w.probe("el_refusals_newer_log")
			} else if res.ErrType == "ERR_PROPOSALID" {
				run.w.probe("el_refusals_number_or_outstanding_commit")
			}
		case "REPL_COMMIT":
			if ok {
				att.commitOK++
				if m.toInc != nil {
					att.commitFrom[m.to] = m.toInc.no
				}
			}
		}
	}
	var member *ArbiterMember
	for _, mm := range m.fromInc.mgr.members {
		if mm.host == elHost(m.to) {
			member = mm
		}
	}
	if member == nil || member.client == nil {
		return
	}
	if res == nil {
		member.client.rchannel <- nil
		return
	}
	var dec protocol.CommandDecode = res
	member.client.rchannel <- dec
}

func (run *elRun) restart(i int, recandidate bool) {
	w := run.w
	old := run.incs[i]
	if old == nil || !old.ready {
		return
	}
	w.fault("election_member_restart")
	w.logf("EL restart m%d (accepted %d committed %d outstanding %q)", i, old.mgr.voter.proposalId, old.mgr.voter.commitId, old.mgr.voter.proposalHost)
	if old.mgr.voter.proposalHost != "" {
		w.probe("el_restarts_with_outstanding_commit")
	}
	old.dead = true
	if old.cand == 1 {
		old.cand = 2
		run.done++
	}
	if old.attempt != nil && old.attempt.active {
		run.active--
		old.attempt.active = false
	}
	w.kill(old.nodeId)
	// what was on its way to or from the member is gone with its connections
	var keep, failed []*elMsg
	for _, m := range run.pending {
		switch {
		case m.from == i:
			// its own requests and the replies to them die with it
		case m.to == i:
			// requests it had not answered (or whose answer had not left): the requester's call fails
			failed = append(failed, m)
		default:
			keep = append(keep, m)
		}
	}
	run.pending = keep
	for _, m := range failed {
		run.answer(m, nil)
	}
	inc := run.start(i, old.no+1)
	run.incs[i] = inc
	if recandidate {
		run.tasks++ // placeholder: keeps the driver waiting until the candidacy has been started
		ssched.SpawnOn(0, "el-recandidate", func() {
			for !inc.ready && w.res.HarnessErr == "" {
				sleep(time.Millisecond)
			}
			if inc.ready && !inc.dead && inc.cand != 1 {
				run.candidate(inc, 2)
			}
			run.done++
		})
	}
}

func runElection(w *World) {
	body := &ELBody{}
	if err := json.Unmarshal(w.sc.Body, body); err != nil {
		w.harnessErr("bad body: %v", err)
		return
	}
	n := len(body.Members)
	run := &elRun{w: w, body: body, incs: make([]*elInc, n), rr: ssched.Sub(w.sc.Seed, "deliver")}
	run.idents = make([][]*BinaryServerProtocol, n)
	for i := range run.idents {
		run.idents[i] = make([]*BinaryServerProtocol, n)
		for j := range run.idents[i] {
			run.idents[i][j] = &BinaryServerProtocol{}
		}
	}
	finished := false
	ssched.SpawnOn(0, "el-driver", func() {
		defer func() { finished = true }()
		for i := range body.Members {
			run.incs[i] = run.start(i, 0)
		}
		for _, inc := range run.incs {
			for !inc.ready {
				if w.res.HarnessErr != "" {
					return
				}
				sleep(time.Millisecond)
			}
		}
		started := make([]bool, len(body.Cands))
		restarted := make([]bool, len(body.Restarts))
		idle := 0
		for step := 0; step < body.MaxSteps && w.res.HarnessErr == "" && len(w.res.Violations) == 0; {
			sleep(time.Millisecond)
			for k, rs := range body.Restarts {
				if !restarted[k] && step >= rs.AtStep {
					restarted[k] = true
					run.restart(rs.Member, rs.Recandidate)
				}
			}
			// what can happen next: a candidacy starts, or a message is delivered or lost
			var startable []int
			for k, c := range body.Cands {
				if !started[k] && step >= c.StartAfter && run.incs[c.Member].ready && run.incs[c.Member].cand != 1 {
					startable = append(startable, k)
				}
			}
			var deliverable []int
			for k, m := range run.pending {
				if !m.handling {
					deliverable = append(deliverable, k)
				}
			}
			total := len(startable) + len(deliverable)
			if total == 0 {
				allStarted := true
				for k := range started {
					allStarted = allStarted && started[k]
				}
				if allStarted && run.done >= run.tasks && len(run.pending) == 0 {
					break
				}
				idle++
				if idle > 5000 {
					dumpStacks()
					w.harnessErr("election: nothing to deliver and the candidates have not finished (done %d of %d, pending %d)", run.done, run.tasks, len(run.pending))
					return
				}
				if !allStarted {
					step++
				}
				continue
			}
			idle = 0
			step++
			run.steps++
			scripted := run.si < len(body.Script)
			var x int
			lost := false
			if scripted {
				v := body.Script[run.si]
				run.si++
				if v < 0 {
					v = -v
				}
				x, lost = (v/2)%total, v%2 == 1
			} else {
				x = run.rr.Intn(total)
			}
			if x < len(startable) {
				run.trace = append(run.trace, 2*x)
				k := startable[x]
				started[k] = true
				run.candidate(run.incs[body.Cands[k].Member], body.Cands[k].Attempts)
				continue
			}
			if !scripted {
				lost = run.rr.Chance(body.LossPermil)
			}
			if lost {
				run.trace = append(run.trace, 2*x+1)
			} else {
				run.trace = append(run.trace, 2*x)
			}
			k := deliverable[x-len(startable)]
			m := run.pending[k]
			run.pending = append(run.pending[:k], run.pending[k+1:]...)
			run.deliver(m, lost)
		}
		// let the candidacies end: whatever is still outstanding is lost
		for guard := 0; guard < 2000 && run.done < run.tasks && w.res.HarnessErr == ""; guard++ {
			sleep(time.Millisecond)
			for len(run.pending) > 0 {
				var m *elMsg
				for k, p := range run.pending {
					if !p.handling {
						m = p
						run.pending = append(run.pending[:k], run.pending[k+1:]...)
						break
					}
				}
				if m == nil {
					break
				}
				run.deliver(m, true)
			}
		}
	})
	end := w.S.Loop(func() bool {
		if len(w.S.Panics) > 0 {
			p := w.S.Panics[0]
			w.violate(w.sc.Prop, "server_crash@"+panicSite(p.Stack), "a server goroutine panicked (the real process would die): %s in task %s", p.Value, p.Task)
			return true
		}
		return finished || w.res.HarnessErr != ""
	}, time.Duration(w.sc.MaxSimS)*time.Second)
	w.res.LoopEnd = end
	if end != "done" && w.res.HarnessErr == "" && len(w.res.Violations) == 0 {
		dumpStacks()
		w.harnessErr("run did not finish: loop ended with %q", end)
	}
	w.probe(fmt.Sprintf("el_members_%d", n))
	if len(run.wins) == 0 {
		w.probe("el_runs_without_winner")
	}
	var sig []string
	for _, inc := range run.incs {
		if inc != nil && inc.mgr != nil {
			sig = append(sig, fmt.Sprintf("%d/%d/%s", inc.mgr.voter.proposalId, inc.mgr.voter.commitId, inc.mgr.voter.proposalHost))
		}
	}
	sort.Strings(sig)
	w.res.StateSig = strings.Join(sig, ",")
	if len(w.res.Violations) > 0 && len(body.Script) == 0 {
		w.res.Sample = map[string]any{"script": run.trace}
	}
	w.res.Nontrivial = w.res.Probes["el_proposals_accepted"] > 0
}

func init() {
	kinds["election"] = &kindFn{gen: genElection, run: runElection}
	propKinds["C12"] = append(propKinds["C12"], struct {
		Kind   string
		Weight int
	}{"election", 10})
}
