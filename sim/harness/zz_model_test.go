package server

// Simulation harness, part 5: the executable reference model of one key (L2) for the core command
// subset, written from the property statements. It is a step relation: given the state of a key
// before a critical section and an action (a client request being processed, a wake-up of the
// head waiter, an expiry, a wait timeout), it returns every outcome the properties permit
// (state after + reply). Where the properties are silent it returns several outcomes.

import (
	"bytes"
	"fmt"
	"time"

	"github.com/snower/slock/protocol"
)

// ---------------------------------------------------------------------------------------------
// values

type Val struct {
	Exists bool
	Array  bool
	B      []byte
}

func (v Val) String() string {
	if !v.Exists {
		return "none"
	}
	if v.Array {
		return fmt.Sprintf("array:%x", v.B)
	}
	return fmt.Sprintf("%q", v.B)
}

func (v Val) Equal(o Val) bool {
	if v.Exists != o.Exists {
		return false
	}
	if !v.Exists {
		return true
	}
	return v.Array == o.Array && bytes.Equal(v.B, o.B)
}

// parseFrame reads a value frame: [len:4][stage<<6|type][flags][props?][payload].
func parseFrame(frame []byte) (typ uint8, flags uint8, payload []byte, ok bool) {
	if len(frame) < 6 {
		return 0, 0, nil, false
	}
	typ, flags = frame[4]&0x3f, frame[5]
	off := 6
	if flags&protocol.LOCK_DATA_FLAG_CONTAINS_PROPERTY != 0 && len(frame) >= 8 {
		off = 8 + int(frame[6]) + int(frame[7])<<8
	}
	if off > len(frame) {
		return typ, flags, nil, false
	}
	return typ, flags, frame[off:], true
}

func valOfFrame(frame []byte) Val {
	if frame == nil {
		return Val{}
	}
	_, flags, payload, ok := parseFrame(frame)
	if !ok {
		return Val{Exists: true, B: nil}
	}
	return Val{Exists: true, Array: flags&protocol.LOCK_DATA_FLAG_VALUE_TYPE_ARRAY != 0, B: append([]byte(nil), payload...)}
}

func le64(b []byte) int64 {
	var v int64
	for i := 0; i < 8 && i < len(b); i++ {
		v |= int64(b[i]) << (uint(i) * 8)
	}
	return v
}
func le32(b []byte) uint32 {
	var v uint32
	for i := 0; i < 4 && i < len(b); i++ {
		v |= uint32(b[i]) << (uint(i) * 8)
	}
	return v
}

func arrayElems(b []byte) [][]byte {
	var out [][]byte
	for i := 0; i+4 <= len(b); {
		n := int(le32(b[i:]))
		if n == 0 {
			i += 4
			continue
		}
		if i+4+n > len(b) {
			break
		}
		out = append(out, b[i+4:i+4+n])
		i += 4 + n
	}
	return out
}

// firstOrLast: the frame carries the data flag 0x20 ("process first or last"): on a LOCK the operation is
// carried out only when the key's holds, this request's included, number exactly one level; on an UNLOCK only
// when nothing is held and nobody waits afterwards. Otherwise the request is served without it.
func firstOrLast(frame []byte) bool {
	return len(frame) >= 6 && frame[4]>>6 == protocol.LOCK_DATA_STAGE_CURRENT && frame[5]&protocol.LOCK_DATA_FLAG_PROCESS_FIRST_OR_LAST != 0
}

// applyValueOp is the sequential interpreter of value operations (C15).
func applyValueOp(old Val, frame []byte, seqPipeline bool) Val {
	typ, flags, payload, ok := parseFrame(frame)
	if !ok {
		return old
	}
	switch typ {
	case protocol.LOCK_DATA_COMMAND_TYPE_SET:
		return Val{Exists: true, Array: flags&protocol.LOCK_DATA_FLAG_VALUE_TYPE_ARRAY != 0, B: append([]byte(nil), payload...)}
	case protocol.LOCK_DATA_COMMAND_TYPE_UNSET:
		return Val{}
	case protocol.LOCK_DATA_COMMAND_TYPE_INCR:
		n := le64(payload)
		if old.Exists {
			n += le64(old.B)
		}
		b := make([]byte, 8)
		for i := 0; i < 8; i++ {
			b[i] = byte(n >> (uint(i) * 8))
		}
		return Val{Exists: true, B: b}
	case protocol.LOCK_DATA_COMMAND_TYPE_APPEND:
		if !old.Exists {
			return Val{Exists: true, Array: flags&protocol.LOCK_DATA_FLAG_VALUE_TYPE_ARRAY != 0, B: append([]byte(nil), payload...)}
		}
		return Val{Exists: true, Array: old.Array, B: append(append([]byte(nil), old.B...), payload...)}
	case protocol.LOCK_DATA_COMMAND_TYPE_SHIFT:
		n := int(le32(payload))
		if !old.Exists || n <= 0 {
			return old
		}
		if n > len(old.B) {
			n = len(old.B)
		}
		return Val{Exists: true, Array: old.Array, B: append([]byte(nil), old.B[n:]...)}
	case protocol.LOCK_DATA_COMMAND_TYPE_PUSH:
		el := append([]byte{byte(len(payload)), byte(len(payload) >> 8), byte(len(payload) >> 16), byte(len(payload) >> 24)}, payload...)
		if !old.Exists || !old.Array {
			return Val{Exists: true, Array: true, B: el}
		}
		return Val{Exists: true, Array: true, B: append(append([]byte(nil), old.B...), el...)}
	case protocol.LOCK_DATA_COMMAND_TYPE_POP:
		n := int(le32(payload))
		if !old.Exists || !old.Array || n <= 0 {
			return old
		}
		els := arrayElems(old.B)
		if n > len(els) {
			n = len(els)
		}
		var b []byte
		for _, e := range els[n:] {
			b = append(b, byte(len(e)), byte(len(e)>>8), byte(len(e)>>16), byte(len(e)>>24))
			b = append(b, e...)
		}
		return Val{Exists: true, Array: true, B: b}
	case protocol.LOCK_DATA_COMMAND_TYPE_PIPELINE:
		cur := old
		for i := 0; i+4 <= len(payload); {
			n := int(le32(payload[i:]))
			if i+4+n > len(payload) {
				break
			}
			sub := payload[i : i+4+n]
			if seqPipeline {
				cur = applyValueOp(cur, sub, true)
			} else {
				cur = applyValueOp(old, sub, false)
			}
			i += 4 + n
		}
		return cur
	}
	return old
}

// ---------------------------------------------------------------------------------------------
// key state

type MHold struct {
	Lid     [16]byte
	Req     [16]byte
	Depth   uint8
	Count   uint16
	Rcount  uint8
	TFlag   uint16
	EFlag   uint16
	Expried uint16
	AckPend bool
}

type MWait struct {
	Req    [16]byte
	Lid    [16]byte
	Count  uint16
	Rcount uint8
	TFlag  uint16
	Prio   uint8
}

type MKey struct {
	Holders []MHold
	Waiters []MWait
	Val     Val
	// Waited is the key's "has waiters" flag as observed. It lags behind the queue for an instant
	// (it is cleared by the last step of a wake-up pass); while it is set, an admissible newcomer
	// is queued instead of granted, which no property forbids.
	Waited bool
}

func (k *MKey) locked() uint32 {
	var n uint32
	for _, h := range k.Holders {
		n += uint32(h.Depth)
	}
	return n
}

func (k *MKey) clone() MKey {
	return MKey{Holders: append([]MHold(nil), k.Holders...), Waiters: append([]MWait(nil), k.Waiters...), Val: k.Val, Waited: k.Waited}
}

func mkeyOfSnap(s *KeySnap) MKey {
	var k MKey
	for _, h := range s.Holders {
		k.Holders = append(k.Holders, MHold{Lid: h.Lid, Req: h.Req, Depth: h.Depth, Count: h.Count, Rcount: h.Rcount, TFlag: h.TFlag, EFlag: h.EFlag, Expried: h.Expried, AckPend: h.AckPend})
	}
	for _, w := range s.Waiters {
		k.Waiters = append(k.Waiters, MWait{Req: w.Req, Lid: w.Lid, Count: w.Count, Rcount: w.Rcount, TFlag: w.TFlag, Prio: w.Prio})
	}
	if s.HasVal {
		k.Val = valOfFrame(s.Value)
	}
	k.Waited = s.Waited
	return k
}

func (k *MKey) sig() string {
	s := ""
	for _, h := range k.Holders {
		ap := ""
		if h.AckPend {
			ap = "A"
		}
		s += fmt.Sprintf("H(l%d d%d c%d r%d e%d/%x q%x%s)", lidIndex(h.Lid), h.Depth, h.Count, h.Rcount, h.Expried, h.EFlag, h.Req[1:7], ap)
	}
	for _, w := range k.Waiters {
		s += fmt.Sprintf("W(l%d c%d p%d q%x)", lidIndex(w.Lid), w.Count, w.Prio, w.Req[1:7])
	}
	return s + " V=" + k.Val.String()
}

func (k *MKey) equalLocks(o *MKey) bool {
	if len(k.Holders) != len(o.Holders) || len(k.Waiters) != len(o.Waiters) {
		return false
	}
	for i := range k.Holders {
		if k.Holders[i] != o.Holders[i] {
			return false
		}
	}
	for i := range k.Waiters {
		if k.Waiters[i] != o.Waiters[i] {
			return false
		}
	}
	return true
}

// admissible is the admission rule of C01.
func (k *MKey) admissible(count uint16) bool {
	n := k.locked()
	if n == 0 {
		return true
	}
	if count == 0 {
		return false
	}
	if n >= 0xffff {
		return k.Holders[0].Count == 0xffff && count == 0xffff
	}
	return n <= uint32(k.Holders[0].Count) && n <= uint32(count)
}

func (k *MKey) maxWaitPrio() uint8 {
	var p uint8
	for _, w := range k.Waiters {
		if w.Prio > p {
			p = w.Prio
		}
	}
	return p
}

// insertWaiter keeps the stable priority order (higher priority first, arrival order within).
func (k *MKey) insertWaiter(w MWait) {
	i := len(k.Waiters)
	for j, o := range k.Waiters {
		if w.Prio > o.Prio {
			i = j
			break
		}
	}
	k.Waiters = append(k.Waiters, MWait{})
	copy(k.Waiters[i+1:], k.Waiters[i:])
	k.Waiters[i] = w
}

func (k *MKey) holderIdx(lid [16]byte) int {
	for i, h := range k.Holders {
		if h.Lid == lid {
			return i
		}
	}
	return -1
}

// ---------------------------------------------------------------------------------------------
// step relation

type Pred struct {
	NoReply bool // the request is queued: no reply yet
	Result  uint8
	LRCount uint8
	LCount  uint16
	Before  Val      // value carried by the reply (value immediately before the operation)
	LockId  [16]byte // LockId echoed in the reply
}

type Outcome struct {
	After MKey
	Pred  Pred
	Note  string
	// Second is a second reply produced by the same step to another request (cancel-wait).
	SecondReq  [16]byte
	SecondPred *Pred
	// NonSeq: this outcome applies a PIPELINE non-sequentially (finding F3); it is offered only so
	// that the step can be recognised, and is reported as a C15 violation when it matches.
	NonSeq bool
}

// hasPipeline reports whether a value-operation frame is a PIPELINE of two or more operations.
func hasPipeline(frame []byte) bool {
	typ, _, payload, ok := parseFrame(frame)
	if !ok || typ != protocol.LOCK_DATA_COMMAND_TYPE_PIPELINE {
		return false
	}
	n := 0
	for i := 0; i+4 <= len(payload); {
		l := int(le32(payload[i:]))
		if i+4+l > len(payload) {
			break
		}
		n++
		i += 4 + l
	}
	return n >= 2
}

type ReqView struct {
	Id   [16]byte
	Op   OpSpec
	Data []byte // value-operation frame, nil if none
}

func reqView(r *ReqRec) ReqView {
	v := ReqView{Id: r.Id, Op: r.Op}
	if r.Op.Data != nil {
		if d := r.Op.Data.build(); d != nil {
			v.Data = d.Data
		}
	}
	return v
}

type ModelCfg struct {
	// SeqPipeline: a PIPELINE applies its operations one after the other (the sequential reading
	// of C15). False mirrors nothing; it is only used to classify a mismatch as the known finding.
	SeqPipeline bool
}

func isPrio(tf uint16) bool { return tf&tfPriority != 0 }

func prioOf(op *OpSpec) uint8 {
	if isPrio(op.TFlag) {
		return op.Rcount
	}
	return 0
}

func unitOf(eflag uint16) time.Duration {
	switch {
	case eflag&efMs != 0:
		return time.Millisecond
	case eflag&efMinute != 0:
		return time.Minute
	}
	return time.Second
}

// nextLock: outcomes of processing LOCK request r on state s. holdAge gives, for a holder index,
// the time left until its current deadline as the model knows it (for the update-equality rule).
func nextLock(s *MKey, r ReqView, cfg ModelCfg, sameDeadline func(h *MHold) (known bool, within bool), concurrent bool) []Outcome {
	op := r.Op
	var outs []Outcome
	locked := s.locked()
	before := s.Val
	applyData := func(k *MKey) {
		if r.Data != nil {
			if firstOrLast(r.Data) && k.locked() != 1 {
				return // k is the state with this request's hold or level already counted
			}
			k.Val = applyValueOp(k.Val, r.Data, cfg.SeqPipeline)
		}
	}
	lid := lidBytes(op.Lid)
	noChange := func(res uint8, lrc uint8, lockId [16]byte, note string) Outcome {
		return Outcome{After: s.clone(), Pred: Pred{Result: res, LRCount: lrc, LCount: uint16(locked), Before: before, LockId: lockId}, Note: note}
	}
	// concurrent-check with Timeout 0: capacity pre-check (taken outside the key's critical section)
	if op.Flag&protocol.LOCK_FLAG_CONCURRENT_CHECK != 0 && op.Timeout == 0 {
		if op.Count < 0xffff && locked > uint32(op.Count) {
			outs = append(outs, noChange(protocol.RESULT_TIMEOUT, 0, lid, "concurrent-check refused"))
			if !concurrent {
				return outs
			}
		}
		if locked == 0 && op.TFlag&tfWaitUnl != 0 {
			o := noChange(protocol.RESULT_TIMEOUT, 0, lid, "concurrent-check wait-when-unlocked refused")
			o.Pred.Before = Val{}
			o.Pred.LCount = 0
			outs = append(outs, o)
			if !concurrent {
				return outs
			}
		}
	}
	waitedPath := false
	if locked > 0 {
		if op.Flag&protocol.LOCK_FLAG_SHOW_WHEN_LOCKED != 0 {
			oldest := s.Holders[0]
			lid = oldest.Lid
			if op.Flag&protocol.LOCK_FLAG_UPDATE_WHEN_LOCKED == 0 {
				return append(outs, noChange(protocol.RESULT_UNOWN_ERROR, oldest.Depth, lid, "show"))
			}
		}
		if hi := s.holderIdx(lid); hi >= 0 {
			cur := s.Holders[hi]
			if cur.AckPend {
				return append(outs, noChange(protocol.RESULT_LOCK_ACK_WAITING, cur.Depth, lid, "ack pending"))
			}
			if op.Flag&protocol.LOCK_FLAG_UPDATE_WHEN_LOCKED != 0 {
				// update of a live hold: terms replaced and period restarted, unless the new terms are
				// equal within one unit (then the update may be ignored). Reply code LOCKED_ERROR.
				countsEqual := cur.Count == op.Count && cur.Rcount == op.Rcount && isPrio(cur.TFlag) == isPrio(op.TFlag)
				applied := s.clone()
				h := &applied.Holders[hi]
				h.Req, h.Count, h.Rcount, h.TFlag, h.EFlag, h.Expried = r.Id, op.Count, op.Rcount, op.TFlag, op.EFlag, op.Expried
				applyData(&applied)
				appliedOut := Outcome{After: applied, Pred: Pred{Result: protocol.RESULT_LOCKED_ERROR, LRCount: cur.Depth, LCount: uint16(locked), Before: before, LockId: lid}, Note: "update applied"}
				if countsEqual {
					known, within := sameDeadline(&cur)
					if !known || within {
						ignored := s.clone()
						applyData(&ignored) // a carried value operation is applied before the equality short-cut
						outs = append(outs, Outcome{After: ignored, Pred: appliedOut.Pred, Note: "update ignored (terms equal within one unit)"})
						if known && within && r.Data == nil {
							// both are allowed
						}
					}
				}
				return append(outs, appliedOut)
			}
			if cur.Depth < 0xff && cur.Depth <= op.Rcount && !isPrio(op.TFlag) {
				if op.Expried == 0 {
					return append(outs, noChange(protocol.RESULT_SUCCED, cur.Depth, lid, "re-lock with expiry 0"))
				}
				a := s.clone()
				h := &a.Holders[hi]
				h.Depth++
				h.Req, h.Count, h.Rcount, h.TFlag, h.EFlag, h.Expried = r.Id, op.Count, op.Rcount, op.TFlag, op.EFlag, op.Expried
				applyData(&a)
				return append(outs, Outcome{After: a, Pred: Pred{Result: protocol.RESULT_SUCCED, LRCount: cur.Depth + 1, LCount: uint16(locked + 1), Before: before, LockId: lid}, Note: "re-entrant"})
			}
			return append(outs, noChange(protocol.RESULT_LOCKED_ERROR, cur.Depth, lid, "re-lock refused"))
		}
		waitedPath = s.Waited || len(s.Waiters) > 0
	} else {
		if op.TFlag&tfWaitUnl != 0 {
			if (s.Waited || len(s.Waiters) > 0) && op.Count == 0 {
				return append(outs, noChange(protocol.RESULT_UNOWN_ERROR, 0, lid, "wait-when-unlocked with waiters"))
			}
			waitedPath = true
		}
	}
	canTry := !waitedPath
	if waitedPath && isPrio(op.TFlag) && (len(s.Waiters) == 0 || op.Rcount > s.maxWaitPrio()) {
		canTry = true
	}
	if op.TFlag&tfWaitUnl != 0 && locked == 0 {
		// the flag asks to wait while the key is free: it is never granted directly on a free key
		// unless it carries a priority that beats the queue
		if !(isPrio(op.TFlag) && (len(s.Waiters) == 0 || op.Rcount > s.maxWaitPrio())) {
			canTry = false
		}
		waitedPath = true
	}
	grant := func() Outcome {
		a := s.clone()
		if op.Expried > 0 {
			a.Holders = append(a.Holders, MHold{Lid: lid, Req: r.Id, Depth: 1, Count: op.Count, Rcount: op.Rcount, TFlag: op.TFlag, EFlag: op.EFlag, Expried: op.Expried})
			applyData(&a)
			return Outcome{After: a, Pred: Pred{Result: protocol.RESULT_SUCCED, LRCount: 1, LCount: uint16(locked + 1), Before: before, LockId: lid}, Note: "granted"}
		}
		applyData(&a)
		return Outcome{After: a, Pred: Pred{Result: protocol.RESULT_SUCCED, LRCount: 0, LCount: uint16(locked), Before: before, LockId: lid}, Note: "granted without hold (expiry 0)"}
	}
	queueOrTimeout := func() Outcome {
		if op.Timeout > 0 {
			a := s.clone()
			a.insertWaiter(MWait{Req: r.Id, Lid: lid, Count: op.Count, Rcount: op.Rcount, TFlag: op.TFlag, Prio: prioOf(&op)})
			return Outcome{After: a, Pred: Pred{NoReply: true}, Note: "queued"}
		}
		return noChange(protocol.RESULT_TIMEOUT, 0, lid, "not admissible, timeout 0")
	}
	if canTry && s.admissible(op.Count) {
		outs = append(outs, grant())
		if waitedPath && isPrio(op.TFlag) {
			// a priority request that beats the live queue may be granted at once; the server may
			// also compare it with the priority of an entry that is already dead but not yet
			// discarded and queue it (no property forbids queueing)
			outs = append(outs, queueOrTimeout())
		}
		return outs
	}
	outs = append(outs, queueOrTimeout())
	return outs
}

func nextUnlock(s *MKey, r ReqView, cfg ModelCfg, present bool) []Outcome {
	op := r.Op
	locked := s.locked()
	before := s.Val
	lid := lidBytes(op.Lid)
	noChange := func(res uint8, lrc uint8, note string) Outcome {
		return Outcome{After: s.clone(), Pred: Pred{Result: res, LRCount: lrc, LCount: uint16(locked), Before: before, LockId: lid}, Note: note}
	}
	cancel := func() []Outcome {
		// cancel-wait: removes the queued request bearing that LockId (which one of several: open)
		var outs []Outcome
		for i, w := range s.Waiters {
			if w.Lid == lid {
				a := s.clone()
				a.Waiters = append(a.Waiters[:i:i], a.Waiters[i+1:]...)
				o := Outcome{After: a, Pred: Pred{Result: protocol.RESULT_LOCKED_ERROR, LRCount: 0, LCount: uint16(locked), Before: before, LockId: lid}, Note: "cancel-wait"}
				o.SecondReq = w.Req
				o.SecondPred = &Pred{Result: protocol.RESULT_UNLOCK_ERROR, LRCount: 0, LCount: uint16(locked), Before: before, LockId: lid}
				outs = append(outs, o)
			}
		}
		if len(outs) == 0 {
			outs = append(outs, noChange(protocol.RESULT_UNLOCK_ERROR, 0, "cancel-wait: nothing queued"))
		}
		return outs
	}
	if !present {
		o := noChange(protocol.RESULT_UNLOCK_ERROR, 0, "no such key")
		o.Pred.Before = Val{}
		return []Outcome{o}
	}
	if locked == 0 {
		if op.Flag&protocol.UNLOCK_FLAG_CANCEL_WAIT_LOCK_WHEN_UNLOCKED != 0 {
			return cancel()
		}
		return []Outcome{noChange(protocol.RESULT_UNLOCK_ERROR, 0, "nothing held")}
	}
	hi := s.holderIdx(lid)
	first := false
	if hi < 0 {
		switch {
		case op.Flag&protocol.UNLOCK_FLAG_UNLOCK_FIRST_LOCK_WHEN_UNLOCKED != 0:
			hi, first = 0, true
			lid = s.Holders[0].Lid
		case op.Flag&protocol.UNLOCK_FLAG_CANCEL_WAIT_LOCK_WHEN_UNLOCKED != 0:
			return cancel()
		default:
			return []Outcome{noChange(protocol.RESULT_UNOWN_ERROR, 0, "not the owner")}
		}
	} else if s.Holders[hi].AckPend {
		return []Outcome{noChange(protocol.RESULT_LOCK_ACK_WAITING, s.Holders[hi].Depth, "ack pending")}
	}
	cur := s.Holders[hi]
	applyData := func(k *MKey) {
		if r.Data != nil {
			if firstOrLast(r.Data) && (k.locked() != 0 || len(k.Waiters) > 0 || k.Waited) {
				return
			}
			k.Val = applyValueOp(k.Val, r.Data, cfg.SeqPipeline)
		}
	}
	releaseAll := func() Outcome {
		a := s.clone()
		a.Holders = append(a.Holders[:hi:hi], a.Holders[hi+1:]...)
		applyData(&a)
		return Outcome{After: a, Pred: Pred{Result: protocol.RESULT_SUCCED, LRCount: 0, LCount: uint16(locked - uint32(cur.Depth)), Before: before, LockId: lid}, Note: "released"}
	}
	releaseOne := func() Outcome {
		a := s.clone()
		a.Holders[hi].Depth--
		applyData(&a)
		return Outcome{After: a, Pred: Pred{Result: protocol.RESULT_SUCCED, LRCount: cur.Depth - 1, LCount: uint16(locked - 1), Before: before, LockId: lid}, Note: "released one level"}
	}
	if cur.Depth > 1 {
		if first {
			// unlock-first on a re-entrant hold: one level or all levels (open)
			return []Outcome{releaseOne(), releaseAll()}
		}
		if op.Rcount > 0 && !isPrio(op.TFlag) {
			return []Outcome{releaseOne()}
		}
		return []Outcome{releaseAll()}
	}
	return []Outcome{releaseAll()}
}

// nextWake: the head live waiter is granted (only if admissible).
func nextWake(s *MKey, dataOf func(req [16]byte) ([]byte, *OpSpec), cfg ModelCfg) []Outcome {
	if len(s.Waiters) == 0 {
		return nil
	}
	w := s.Waiters[0]
	if !s.admissible(w.Count) {
		return nil
	}
	frame, op := dataOf(w.Req)
	if op == nil {
		return nil
	}
	a := s.clone()
	a.Waiters = a.Waiters[1:]
	locked := s.locked()
	before := s.Val
	if hi := s.holderIdx(w.Lid); hi >= 0 {
		// C02: its LockId holds the key by now (another request of that LockId was served first): the
		// queued request does not become a second hold under one LockId, it is refused
		return []Outcome{{After: a, Pred: Pred{Result: protocol.RESULT_LOCKED_ERROR, LRCount: s.Holders[hi].Depth, LCount: uint16(locked), Before: before, LockId: w.Lid}, Note: "refused: its LockId holds the key", SecondReq: w.Req}}
	}
	if after := locked + map[bool]uint32{true: 1, false: 0}[op.Expried > 0]; frame != nil && !(firstOrLast(frame) && after != 1) {
		a.Val = applyValueOp(a.Val, frame, cfg.SeqPipeline)
	}
	if op.Expried > 0 {
		a.Holders = append(a.Holders, MHold{Lid: w.Lid, Req: w.Req, Depth: 1, Count: w.Count, Rcount: w.Rcount, TFlag: w.TFlag, EFlag: op.EFlag, Expried: op.Expried})
		return []Outcome{{After: a, Pred: Pred{Result: protocol.RESULT_SUCCED, LRCount: 1, LCount: uint16(locked + 1), Before: before, LockId: w.Lid}, Note: "woken", SecondReq: w.Req}}
	}
	return []Outcome{{After: a, Pred: Pred{Result: protocol.RESULT_SUCCED, LRCount: 0, LCount: uint16(locked), Before: before, LockId: w.Lid}, Note: "woken without hold", SecondReq: w.Req}}
}
