package server

// Simulation harness, part 8: persistence. A leader with real append-only files (on tmpfs, every
// mutating file call journalled by the sos shim) runs a workload, is stopped at a quiescent point
// with a drained persistence queue (graceful close or kill), possibly stays down for a while,
// and a new instance is started by the real start-up path on the same directory (C07). For C08
// the newest files are cut at enumerated positions before the restart; for C16 the journal of a
// compaction is cut after every file-system call.

import (
	"encoding/json"
	"fmt"
	realio "io"
	realos "os"
	"path/filepath"
	"sort"
	"strings"
	"time"

	"github.com/snower/slock/protocol"
	"github.com/snower/slock/simrt/sos"
	"github.com/snower/slock/simrt/ssched"
)

type RestartPhase struct {
	Clients  []ClientSpec `json:"clients"`
	Graceful bool         `json:"graceful,omitempty"`
	OutageS  int          `json:"outage_s,omitempty"`
	SettleMs int          `json:"settle_ms,omitempty"`
}

type RestartBody struct {
	Phases []RestartPhase `json:"phases"`
	NKeys  int            `json:"nkeys"`
	NLids  int            `json:"nlids"`
	Dbs    []int          `json:"dbs"`
	// Cut (C08): after phase 0 the data directory is replaced by crash images
	Cut *CutSpec `json:"cut,omitempty"`
}

type CutSpec struct {
	Mode   string `json:"mode"`    // "tail": every truncation of the newest append file over the last records
	LastK  int    `json:"last_k"`  // records of the newest append file to cut through
	Stride int    `json:"stride"`  // 1 = every byte offset
	MaxImg int    `json:"max_img"` // bound on images per history
}

// ---------------------------------------------------------------------------------------------
// canonical snapshot of a whole instance

type CanonHold struct {
	Lid      string `json:"lid"`
	Depth    uint8  `json:"depth"`
	Count    uint16 `json:"count"`
	Rcount   uint8  `json:"rcount"`
	EFlag    uint16 `json:"eflag"`
	Expried  uint16 `json:"expried"`
	Deadline int64  `json:"deadline"`
	Start    int64  `json:"start"`
	IsAof    bool   `json:"is_aof"`
	AofTime  uint8  `json:"aof_time"`
}

type CanonKey struct {
	Db    int         `json:"db"`
	Key   string      `json:"key"`
	Holds []CanonHold `json:"holds"`
	Val   string      `json:"val"`
	HasV  bool        `json:"has_val"`
	VAof  bool        `json:"val_is_aof"`
}

func canonSnapshot(sl *SLock) map[string]*CanonKey {
	out := map[string]*CanonKey{}
	for dbi, db := range sl.dbs {
		if db == nil {
			continue
		}
		for _, m := range allManagers(db) {
			if m.refCount == 0xffffffff {
				continue
			}
			hs := holdersOf(m)
			ck := &CanonKey{Db: dbi, Key: fmt.Sprintf("%x", m.lockKey)}
			for _, l := range hs {
				if l.command == nil {
					continue
				}
				ck.Holds = append(ck.Holds, CanonHold{Lid: fmt.Sprintf("%x", l.command.LockId), Depth: l.locked, Count: l.command.Count, Rcount: l.command.Rcount,
					EFlag: l.command.ExpriedFlag, Expried: l.command.Expried, Deadline: l.expriedTime, Start: l.startTime, IsAof: l.isAof, AofTime: l.aofTime})
			}
			if d := m.GetLockData(); d != nil {
				v := valOfFrame(d)
				ck.HasV, ck.Val = true, fmt.Sprintf("%v:%x", v.Array, v.B)
				ck.VAof = m.currentData != nil && m.currentData.isAof
			}
			if len(ck.Holds) == 0 && !ck.HasV {
				continue
			}
			sort.Slice(ck.Holds, func(i, j int) bool { return ck.Holds[i].Lid < ck.Holds[j].Lid })
			out[fmt.Sprintf("%d/%s", dbi, ck.Key)] = ck
		}
	}
	return out
}

func canonSig(m map[string]*CanonKey, withDeadline bool) string {
	keys := make([]string, 0, len(m))
	for k := range m {
		keys = append(keys, k)
	}
	sort.Strings(keys)
	var b strings.Builder
	for _, k := range keys {
		ck := m[k]
		fmt.Fprintf(&b, "%s{", k)
		for _, h := range ck.Holds {
			fmt.Fprintf(&b, "%s d%d c%d r%d", h.Lid[2:6], h.Depth, h.Count, h.Rcount)
			if withDeadline {
				fmt.Fprintf(&b, " @%d", h.Deadline)
			}
			b.WriteString(";")
		}
		if ck.HasV {
			fmt.Fprintf(&b, "v=%s", ck.Val)
		}
		b.WriteString("} ")
	}
	return b.String()
}

func deadlineUnit(eflag uint16) int64 {
	switch {
	case eflag&efMinute != 0:
		return 60
	}
	return 1
}

// aofDrained: nothing is on its way to the append file any more.
func aofDrained(sl *SLock) bool {
	a := sl.aof
	if a.channelActiveCount != 0 {
		return false
	}
	for _, ch := range a.channels {
		if ch.queueCount != 0 {
			return false
		}
	}
	if a.aofFile != nil && (a.aofFile.windex != 0 || a.aofFile.dwindex != 0) {
		return false
	}
	return !a.isRewriting
}

// ---------------------------------------------------------------------------------------------
// generator

func genRestartPhaseClients(r *ssched.Rand, body *RestartBody, phase int, uniq *int) []ClientSpec {
	nc := 1 + r.Intn(3)
	var out []ClientSpec
	for c := 0; c < nc; c++ {
		cs := ClientSpec{Kind: "mem", StartMs: r.Intn(200)}
		no := 4 + r.Intn(22)
		for i := 0; i < no; i++ {
			o := OpSpec{Cmd: 1, Key: r.Intn(body.NKeys), Lid: r.Intn(body.NLids), Db: uint8(body.Dbs[r.Intn(len(body.Dbs))]), DelayMs: r.Intn(700), Wait: r.Intn(2) == 0}
			if r.Intn(100) < 28 {
				o.Cmd = 2
				o.Rcount = []uint8{0, 0, 1, 2}[r.Intn(4)]
				if r.Intn(10) == 0 {
					o.Flag |= protocol.UNLOCK_FLAG_UNLOCK_FIRST_LOCK_WHEN_UNLOCKED
				}
				if r.Intn(5) == 0 {
					o.Data = genDataSpec(r, uniq, 1)
				}
			} else {
				o.Count = []uint16{0, 1, 2, 3, 0xffff, 0xffff}[r.Intn(6)]
				o.Rcount = []uint8{0, 1, 2, 3, 255}[r.Intn(5)]
				o.Timeout = []uint16{0, 0, 1, 2}[r.Intn(4)]
				switch r.Intn(10) {
				case 0:
					o.Expried, o.EFlag = uint16(1+r.Intn(3)), efMinute
				case 1:
					o.Expried, o.EFlag = 5, efUnlim
				case 2:
					o.Expried = uint16(2 + r.Intn(4)) // short: may expire before or during the outage
				case 3:
					o.Expried, o.EFlag = uint16(3000+r.Intn(20000)), efMs
				default:
					o.Expried = []uint16{8, 20, 45, 90, 300, 1000}[r.Intn(6)]
				}
				switch r.Intn(10) {
				case 0, 1, 2, 3:
					o.EFlag |= efAof0
				case 4:
					o.EFlag |= efAofNever
				case 5:
					o.EFlag |= efAofPct
				}
				if r.Intn(8) == 0 {
					o.Flag |= protocol.LOCK_FLAG_UPDATE_WHEN_LOCKED
				}
				if r.Intn(100) < 40 {
					o.Data = genDataSpec(r, uniq, 1)
				}
			}
			cs.Ops = append(cs.Ops, o)
		}
		out = append(out, cs)
	}
	if r.Intn(3) == 0 {
		// a client that takes persist-immediately holds on keys of its own and releases them at once
		// (the LOCK record may still be queued in its persistence channel when the UNLOCK record is pushed)
		cs := ClientSpec{Kind: "mem", StartMs: r.Intn(500)}
		for i, n := 0, 10+r.Intn(50); i < n; i++ {
			key := 20 + r.Intn(12)
			lid := 40 + r.Intn(3)
			db := uint8(body.Dbs[r.Intn(len(body.Dbs))])
			cs.Ops = append(cs.Ops, OpSpec{Cmd: 1, Key: key, Lid: lid, Db: db, Expried: []uint16{30, 300}[r.Intn(2)], EFlag: efAof0, Count: 0, DelayMs: r.Intn(40)})
			if r.Intn(4) > 0 {
				cs.Ops = append(cs.Ops, OpSpec{Cmd: 2, Key: key, Lid: lid, Db: db})
			}
		}
		out = append(out, cs)
	}
	return out
}

func genRestart(prop string, seed uint64, tier string) *Scenario {
	r := ssched.Sub(seed, "gen")
	pipelineOK = false
	body := &RestartBody{NKeys: 2 + r.Intn(6), NLids: 2 + r.Intn(4), Dbs: []int{0}}
	if r.Intn(3) == 0 {
		body.Dbs = []int{0, 2, 5}[:1+r.Intn(3)]
	}
	uniq := 0
	np := 2 + r.Intn(3)
	for p := 0; p < np; p++ {
		ph := RestartPhase{Clients: genRestartPhaseClients(r, body, p, &uniq), Graceful: r.Intn(2) == 0, SettleMs: 2500 + r.Intn(3000)}
		switch r.Intn(5) {
		case 0:
			ph.OutageS = 1 + r.Intn(10)
		case 1:
			ph.OutageS = 20 + r.Intn(580)
		}
		body.Phases = append(body.Phases, ph)
	}
	// drawn from generators of their own: keys with one holder that takes further levels and gives some
	// back, and keys whose holder lengthens its term once; their terms outlast every outage of the run
	if re := ssched.Sub(seed, "reentry"); re.Intn(3) == 0 {
		body.Phases[0].Clients = append(body.Phases[0].Clients, genReentryClient(re, 4000))
	}
	if rn := ssched.Sub(seed, "renewal"); rn.Intn(3) == 0 {
		body.Phases[0].Clients = append(body.Phases[0].Clients, genRenewalClient(rn, 4000))
	}
	raw, _ := json.Marshal(body)
	k := genKnobs(r)
	k.AofFileBufferSize = []uint{64, 128, 256, 1024, 4096}[r.Intn(5)]
	k.AofFileRewriteSize = []uint{1024, 2048, 4096, 1 << 20}[r.Intn(4)]
	k.DBLockAofTime = uint(r.Intn(3))
	sc := &Scenario{Knobs: k, Sched: genSched(r, seed), Body: raw, MaxSimS: 6000}
	return sc
}

// ---------------------------------------------------------------------------------------------
// runner

type restartRun struct {
	snapAt int64 // second at which the state before the latest stop was read
	w     *World
	body  *RestartBody
	h     *History
	dir   string
	stage string
	done  bool
	imgs  int
	// recovered: holds that the current instance loaded from the log
	recovered map[string]bool
}

func (rr *restartRun) waitReady(n *Node, what string) bool {
	for i := 0; i < 3000; i++ {
		if n.err != nil {
			rr.w.violate(rr.w.sc.Prop, "startup_failed", "%s: the server did not start on its data directory: %v", what, n.err)
			return false
		}
		if n.ready {
			return true
		}
		sleep(10 * time.Millisecond)
	}
	rr.w.harnessErr("%s: node not ready after 30 s", what)
	return false
}

func (rr *restartRun) runClients(n *Node, phase int, cls []ClientSpec) {
	done := 0
	for ci, cs := range cls {
		ci, cs := ci, cs
		cid := phase*100 + ci
		// an in-memory client runs inside the server process: its task belongs to the node (it dies
		// with it, and the databases it creates on first use belong to the node too)
		ssched.SpawnOn(n.id, fmt.Sprintf("p%dclient%d", phase, ci), func() {
			defer func() { done++ }()
			sleep(time.Duration(cs.StartMs) * time.Millisecond)
			c := newMemClient(rr.w, rr.h, n, cid)
			for i, op := range cs.Ops {
				if op.DelayMs > 0 {
					sleep(time.Duration(op.DelayMs) * time.Millisecond)
				}
				r := rr.h.invoke(cid, i, op)
				if err := c.Send(r); err != nil {
					return
				}
				if op.Wait {
					waitReply(r, 30*time.Second)
				}
			}
		})
	}
	for done < len(cls) && !ssched.NodeDead(n.id) {
		sleep(50 * time.Millisecond)
	}
}

func (rr *restartRun) settle(n *Node, ms int) {
	sleep(time.Duration(ms) * time.Millisecond)
	for i := 0; i < 600; i++ {
		ok := false
		ssched.NoPreempt(func() { ok = aofDrained(n.sl) })
		if ok {
			return
		}
		sleep(50 * time.Millisecond)
	}
	rr.w.harnessErr("persistence queue did not drain within 30 s")
}

// expectedAofTime: the persistence delay a hold's own flags ask for.
func expectedAofTime(h *CanonHold, knobDelay uint, pct float64) uint8 {
	switch h.EFlag & 0x1300 {
	case efAof0:
		return 0
	case efAofNever:
		return 0xff
	case efAofPct:
		return uint8(float64(h.Expried) * pct)
	}
	return uint8(knobDelay)
}

// checkPersistFlags: which holds count as persisted (first half of C07).
func (rr *restartRun) checkPersistFlags(n *Node, snap map[string]*CanonKey, now int64) {
	tainted := rr.taintedKeys()
	for _, k := range sortedCanonKeys(snap) {
		ck := snap[k]
		for _, h := range ck.Holds {
			h := h
			age := now - h.Start
			if rr.recovered[k+"/"+h.Lid] {
				continue // came out of the log at the last start: its timing flags were judged before
			}
			want := expectedAofTime(&h, rr.w.sc.Knobs.DBLockAofTime, rr.w.sc.Knobs.AofParcent)
			report := func(class, format string, a ...any) {
				switch {
				case h.AofTime != want:
					// the hold joined a key that was already held and took over the oldest holder's timing
					class = "joiner_" + class
				case tainted[k]:
					class = "relock_" + class
				}
				rr.w.violate("C07", class, format, a...)
			}
			switch {
			case h.EFlag&0x1300 == efAofNever && h.IsAof:
				report("never_persist_persisted", "key %s: hold %s was taken with the never-persist flag but is persisted (its effective persistence delay is %d, its own flags ask for %d)", k, h.Lid[2:6], h.AofTime, want)
			case h.EFlag&0x1300 == efAof0 && !h.IsAof:
				report("persist_immediately_not_persisted", "key %s: hold %s was taken with the persist-immediately flag, the persistence queue is drained, but it is not persisted (effective delay %d)", k, h.Lid[2:6], h.AofTime)
			case want != 0xff && h.EFlag&efMs == 0 && age >= int64(want)+12 && !h.IsAof:
				report("old_hold_not_persisted", "key %s: hold %s is %d s old (persistence delay %d s, effective %d) and still not persisted", k, h.Lid[2:6], age, want, h.AofTime)
			}
		}
	}
}

func sortedCanonKeys(m map[string]*CanonKey) []string {
	keys := make([]string, 0, len(m))
	for k := range m {
		keys = append(keys, k)
	}
	sort.Strings(keys)
	return keys
}

// compareRecovered: second half of C07. old: snapshot before the stop; got: snapshot of the new
// instance; restart: server time (s) at which the new instance loaded the files.
// taintedKeys: keys on which some LockId's hold had its terms changed after the grant (a
// re-entrant re-lock or an update succeeded). Recovery replays the log record by record through
// the lock engine, dropping records whose own terms have expired by load time and re-applying
// admission; for such keys the recovered depth, terms or even presence of a hold can differ
// (finding F22). They are compared too, but their differences are reported under their own
// classes.
// keys of the renewal client (genRenewalClient)
const renewalKeyLo, renewalKeyHi = 120, 130

// genRenewalClient: keys that one LockId takes (persisted at once, a term of minutes) and, a second or
// more later, renews with the update flag to a longer term; nothing else ever touches them.
func genRenewalClient(vs *ssched.Rand, minTerm int) ClientSpec {
	var ops []OpSpec
	n := 1 + vs.Intn(3)
	e1 := make([]uint16, n)
	for i := 0; i < n; i++ {
		e1[i] = uint16(minTerm + vs.Intn(200))
		ops = append(ops, OpSpec{Cmd: 1, Key: renewalKeyLo + i, Lid: 1, Expried: e1[i], EFlag: efAof0, Count: 0, DelayMs: vs.Intn(50), Wait: true})
	}
	for i := 0; i < n; i++ {
		d := vs.Intn(300)
		if i == 0 {
			d = 1200 + vs.Intn(1500)
		}
		ops = append(ops, OpSpec{Cmd: 1, Key: renewalKeyLo + i, Lid: 1, Flag: protocol.LOCK_FLAG_UPDATE_WHEN_LOCKED, Expried: e1[i] + uint16(300+vs.Intn(3000)), EFlag: efAof0, Count: 0, DelayMs: d, Wait: true})
	}
	// some of the keys in the minute unit (drawn last, so that the requests above stay what they were): the
	// record of such a hold carries whole minutes, and whoever compares it with the live hold has a minute's play
	for i := 0; i < n; i++ {
		if vs.Intn(3) == 0 {
			m := uint16(minTerm/60 + 2 + vs.Intn(30))
			ops[i].Expried, ops[i].EFlag = m, ops[i].EFlag|efMinute
			ops[n+i].Expried, ops[n+i].EFlag = m+uint16(5+vs.Intn(60)), ops[n+i].EFlag|efMinute
		}
	}
	return ClientSpec{Kind: "mem", StartMs: 30 + vs.Intn(300), Ops: ops}
}

// keys of the re-entry client (genReentryClient)
const reentryKeyLo, reentryKeyHi = 130, 140

// genReentryClient: keys that one LockId takes with a term of minutes, locks again one to three times
// (same terms, Rcount allows it) and gives one or two levels back; nothing else touches them.
func genReentryClient(vs *ssched.Rand, minTerm int) ClientSpec {
	var ops []OpSpec
	n := 1 + vs.Intn(3)
	for i := 0; i < n; i++ {
		ex := uint16(minTerm + vs.Intn(400))
		up := 1 + vs.Intn(3)
		for l := 0; l <= up; l++ {
			ops = append(ops, OpSpec{Cmd: 1, Key: reentryKeyLo + i, Lid: 1, Expried: ex, EFlag: efAof0, Count: 0, Rcount: 5, DelayMs: vs.Intn(400), Wait: true})
		}
		for l, down := 0, vs.Intn(up+1); l < down; l++ {
			ops = append(ops, OpSpec{Cmd: 2, Key: reentryKeyLo + i, Lid: 1, Rcount: 1, DelayMs: vs.Intn(600), Wait: true})
		}
	}
	return ClientSpec{Kind: "mem", StartMs: 30 + vs.Intn(300), Ops: ops}
}

func (rr *restartRun) taintedKeys() map[string]bool {
	t := map[string]bool{}
	counts := map[string]map[uint16]bool{}
	for _, r := range rr.h.order {
		if r.Op.Cmd != protocol.COMMAND_LOCK || len(r.Replies) == 0 {
			continue
		}
		rep := r.Replies[0]
		if rep.Result == protocol.RESULT_SUCCED && r.Op.Expried > 0 {
			// holds admitted under different Count values: replay order (persistence order, not
			// grant order) plus re-applied admission can refuse one of them
			k := fmt.Sprintf("%d/%x", r.Op.Db, keyBytes(r.Op.Key))
			if counts[k] == nil {
				counts[k] = map[uint16]bool{}
			}
			counts[k][r.Op.Count] = true
			if len(counts[k]) > 1 {
				t[k] = true
			}
		}
		upd := r.Op.Flag&protocol.LOCK_FLAG_UPDATE_WHEN_LOCKED != 0
		if (rep.Result == protocol.RESULT_SUCCED && rep.LRCount >= 2) || (upd && (rep.Result == protocol.RESULT_LOCKED_ERROR || rep.Result == protocol.RESULT_SUCCED)) {
			if !upd && r.Op.Key >= reentryKeyLo && r.Op.Key < reentryKeyHi {
				// the re-entry keys: a sole holder with terms of minutes that takes further levels and gives
				// some back, every record persisted at once and none of them near its end
				continue
			}
			if upd && r.Op.Key >= renewalKeyLo && r.Op.Key < renewalKeyHi {
				// the renewal keys: a sole holder whose only later request lengthens its expiry (nothing else
				// changes, nothing is released): recovery has no choice to make between its records
				continue
			}
			t[fmt.Sprintf("%d/%x", r.Op.Db, keyBytes(r.Op.Key))] = true
		}
	}
	return t
}

// valueTouchedByEndedHold: some successful data-carrying request on the key was an unlock, or was
// made by a LockId that does not hold the key any more. A value travels only inside the log
// record of the request that wrote it: the record of an ended hold is not replayed (its value is
// lost) and the value written by an unlocking request is applied again by replay even when the
// live key had dropped it in between (finding F26).
func (rr *restartRun) valueTouchedByEndedHold(k string, o *CanonKey) bool {
	for _, r := range rr.h.order {
		if r.Op.Data == nil || len(r.Replies) == 0 || fmt.Sprintf("%d/%x", r.Op.Db, keyBytes(r.Op.Key)) != k {
			continue
		}
		res := r.Replies[0].Result
		if !(res == protocol.RESULT_SUCCED || (res == protocol.RESULT_LOCKED_ERROR && r.Op.Flag&protocol.LOCK_FLAG_UPDATE_WHEN_LOCKED != 0)) {
			continue
		}
		if r.Op.Cmd == protocol.COMMAND_UNLOCK {
			return true
		}
		lid := fmt.Sprintf("%x", lidBytes(r.Op.Lid))
		held := false
		for _, h := range o.Holds {
			// the same LockId may hold the key again: the request belongs to the current hold only
			// if it was answered no earlier than that hold began
			// (after a restart the hold's start is the load time: there the request belongs to the
			// current hold if nothing ended that LockId's hold after it)
			if h.Lid == lid && (r.Replies[0].T.Unix() >= h.Start || !rr.holdEndedAfter(r)) {
				held = true
			}
		}
		if !held {
			return true
		}
	}
	return false
}

// holdEndedAfter: was the hold that request r belongs to (its key and LockId) ended, as far as the
// history shows, after r was answered: by an unlock that left no level, by an unlock-first of
// anybody, or by an expiry notice.
func (rr *restartRun) holdEndedAfter(r *ReqRec) bool {
	after := r.Replies[0].Ev
	for _, q := range rr.h.order {
		if q.Op.Db != r.Op.Db || q.Op.Key != r.Op.Key {
			continue
		}
		for _, rep := range q.Replies {
			if rep.Ev <= after {
				continue
			}
			switch {
			case q.Op.Cmd == protocol.COMMAND_UNLOCK && rep.Result == protocol.RESULT_SUCCED && (q.Op.Lid == r.Op.Lid || q.Op.Flag&protocol.UNLOCK_FLAG_UNLOCK_FIRST_LOCK_WHEN_UNLOCKED != 0) && rep.LRCount == 0:
				return true
			case q.Op.Cmd == protocol.COMMAND_LOCK && q.Op.Lid == r.Op.Lid && rep.Result == protocol.RESULT_EXPRIED:
				return true
			}
		}
	}
	return false
}

// grantedSince: a lock request of that key and LockId was answered SUCCED at or after the given second.
func (rr *restartRun) grantedSince(k string, lidHex string, since int64) bool {
	for _, r := range rr.h.order {
		if r.Op.Cmd == protocol.COMMAND_LOCK && len(r.Replies) > 0 && r.Replies[0].Result == protocol.RESULT_SUCCED && r.Replies[0].T.Unix() >= since &&
			fmt.Sprintf("%d/%x", r.Op.Db, keyBytes(r.Op.Key)) == k && fmt.Sprintf("%x", lidBytes(r.Op.Lid)) == lidHex {
			return true
		}
	}
	return false
}

func (rr *restartRun) everHeld(k string, lidHex string) bool {
	for _, r := range rr.h.order {
		if r.Op.Cmd == protocol.COMMAND_LOCK && len(r.Replies) > 0 && r.Replies[0].Result == protocol.RESULT_SUCCED &&
			fmt.Sprintf("%d/%x", r.Op.Db, keyBytes(r.Op.Key)) == k && fmt.Sprintf("%x", lidBytes(r.Op.Lid)) == lidHex {
			return true
		}
	}
	return false
}

func (rr *restartRun) compareRecovered(prop string, old, got map[string]*CanonKey, stopAt, loadFrom, loadTo int64, what string) bool {
	w := rr.w
	ok := true
	tainted := rr.taintedKeys()
	curKey := ""
	bad := func(class, format string, a ...any) {
		ok = false
		if tainted[curKey] {
			class = "relock_" + class
		}
		w.violate(prop, class, what+": "+format, a...)
	}
	for _, k := range sortedCanonKeys(old) {
		o := old[k]
		g := got[k]
		curKey = k
		// one LockId can hold a key twice as two separate holds (a waiter of that LockId woken while
		// another hold of it exists); replay folds their records into one re-entrant hold: same
		// family as the re-lock differences (finding F22)
		seenLid := map[string]bool{}
		for _, h := range o.Holds {
			if seenLid[h.Lid] {
				tainted[k] = true
			}
			seenLid[h.Lid] = true
		}
		if tainted[k] {
			w.probe("keys_with_changed_terms")
		} else {
			w.probe("keys_compared_strictly")
		}
		gotHolds := map[string]CanonHold{}
		if g != nil {
			for _, h := range g.Holds {
				gotHolds[h.Lid] = h
			}
		}
		expectAny := false
		for _, h := range o.Holds {
			gh, present := gotHolds[h.Lid]
			delete(gotHolds, h.Lid)
			mustLive := h.IsAof && (h.EFlag&efUnlim != 0 || h.Deadline > loadTo+deadlineUnit(h.EFlag)+2)
			// a hold that was not persisted at the snapshot may still become persisted before the old
			// instance is gone (a graceful close takes simulated time): only holds whose persistence
			// was not due by then must stay unpersisted
			notDue := h.AofTime == 0xff || h.Start+int64(h.AofTime) > stopAt+1
			mustDead := (!h.IsAof && notDue) || (h.IsAof && h.EFlag&efUnlim == 0 && h.Deadline < loadFrom-2)
			if mustLive {
				expectAny = true
			}
			switch {
			case mustLive && !present && h.EFlag&efMs != 0 && rr.recovered[k+"/"+h.Lid]:
				// the other side of finding F21: an earlier restart gave this millisecond hold its full
				// period again, so it outlives its own log record, which the next start skips as expired
				bad("ms_renewed_hold_lost", "key %s: hold %s with millisecond expiry had been renewed by an earlier restart (deadline %d); its record had expired by the load time %d and the hold is gone", k, h.Lid[2:6], h.Deadline, loadFrom)
			case mustLive && !present:
				bad("hold_lost", "key %s: persisted hold %s (depth %d, deadline %d, load time %d) is not held after the restart", k, h.Lid[2:6], h.Depth, h.Deadline, loadFrom)
			case mustDead && present:
				if !h.IsAof {
					bad("unpersisted_hold_restored", "key %s: hold %s was not persisted but is held after the restart", k, h.Lid[2:6])
				} else if h.EFlag&efMs != 0 && h.AofTime != 0xff && h.Deadline+int64(h.AofTime)+1 >= loadFrom-2 {
					// finding F21 once more: the record of a millisecond hold carries the full duration and the
					// time it was written (later than the grant by the persistence delay), so at the load the
					// record has not expired although the hold has, and the hold starts its period again
					bad("ms_expired_hold_restored", "key %s: hold %s with millisecond expiry expired at %d, before the restart at %d, but is held again: its record was written %d s after the grant and carries the full duration", k, h.Lid[2:6], h.Deadline, loadFrom, h.AofTime)
				} else {
					bad("expired_hold_restored", "key %s: hold %s expired at %d, before the restart at %d, but is held again", k, h.Lid[2:6], h.Deadline, loadFrom)
				}
			case present:
				if gh.Depth != h.Depth || gh.Count != h.Count || gh.Rcount != h.Rcount {
					bad("hold_changed", "key %s: hold %s came back with depth %d Count %d Rcount %d, it had depth %d Count %d Rcount %d", k, h.Lid[2:6], gh.Depth, gh.Count, gh.Rcount, h.Depth, h.Count, h.Rcount)
				}
				if h.EFlag&efUnlim == 0 {
					d := gh.Deadline - h.Deadline
					if d < 0 {
						d = -d
					}
					if d > deadlineUnit(h.EFlag)+1 && h.EFlag&efMs != 0 && gh.Deadline > h.Deadline {
						bad("ms_deadline_renewed", "key %s: hold %s with millisecond expiry had deadline %d, after the restart %d: the restart gave it its full period again", k, h.Lid[2:6], h.Deadline, gh.Deadline)
					} else if d > deadlineUnit(h.EFlag)+1 {
						bad("deadline_moved", "key %s: hold %s had deadline %d, after the restart %d (more than one unit + 1 s apart: the outage changed its lifetime)", k, h.Lid[2:6], h.Deadline, gh.Deadline)
					}
				} else if gh.Deadline < 1<<60 {
					bad("deadline_moved", "key %s: hold %s had unlimited expiry, after the restart its deadline is %d", k, h.Lid[2:6], gh.Deadline)
				}
			}
		}
		for lid := range gotHolds {
			if !rr.everHeld(k, lid) {
				ok = false
				w.violate(prop, "never_held_hold", what+": key %s: hold %s is held after the restart but no request for it was ever granted", k, lid[2:6])
				continue
			}
			if rr.grantedSince(k, lid, rr.snapAt) {
				// a request that was still queued when the state was read (a timer was pending: not a
				// quiescent moment for that key) and was granted before the process stopped
				w.probe("holds_granted_between_snapshot_and_stop")
				continue
			}
			bad("spurious_hold", "key %s: hold %s is held after the restart but was not held before the stop", k, lid[2:6])
		}
		// the attached value travels with the persisted holds
		allPersisted := true
		for _, h := range o.Holds {
			if !h.IsAof || !(h.EFlag&efUnlim != 0 || h.Deadline > loadTo+deadlineUnit(h.EFlag)+2) {
				allPersisted = false // a co-holder's record (and the value it carried) may be skipped
			}
		}
		if expectAny && g != nil && allPersisted {
			cls := "value_changed"
			if rr.valueTouchedByEndedHold(k, o) {
				cls = "endedhold_value_changed"
			}
			if o.HasV && o.VAof && (!g.HasV || g.Val != o.Val) {
				bad(cls, "key %s: value before the stop %s, after the restart %s (has value: %v)", k, o.Val, g.Val, g.HasV)
			}
			if !o.HasV && g.HasV {
				bad(cls, "key %s: no value before the stop, after the restart %s", k, g.Val)
			}
		}
	}
	for _, k := range sortedCanonKeys(got) {
		curKey = k
		if old[k] == nil && len(got[k].Holds) > 0 {
			late := true
			for _, h := range got[k].Holds {
				if !rr.grantedSince(k, h.Lid, rr.snapAt) {
					late = false
				}
			}
			if late {
				w.probe("holds_granted_between_snapshot_and_stop")
				continue
			}
			bad("spurious_hold", "key %s: %d holds after the restart on a key that had none before the stop", k, len(got[k].Holds))
		}
	}
	return ok
}

func (rr *restartRun) stop(n *Node, graceful bool) {
	w := rr.w
	if graceful {
		fin := false
		ssched.SpawnOn(n.id, fmt.Sprintf("n%d.close", n.id), func() { n.srv.Close(); fin = true })
		for i := 0; i < 3000 && !fin; i++ {
			sleep(10 * time.Millisecond)
		}
		if !fin {
			w.harnessErr("graceful close did not finish within 30 s")
		}
		w.fault("graceful_stop")
	} else {
		w.fault("kill")
	}
	w.kill(n.id)
}

func copyDir(src, dst string) error {
	_ = realos.MkdirAll(dst, 0755)
	ents, err := realos.ReadDir(src)
	if err != nil {
		return err
	}
	for _, e := range ents {
		if e.IsDir() {
			continue
		}
		in, err := realos.Open(filepath.Join(src, e.Name()))
		if err != nil {
			return err
		}
		out, err := realos.Create(filepath.Join(dst, e.Name()))
		if err != nil {
			in.Close()
			return err
		}
		_, err = realio.Copy(out, in)
		in.Close()
		out.Close()
		if err != nil {
			return err
		}
	}
	return nil
}

func runRestart(w *World) {
	body := &RestartBody{}
	if err := json.Unmarshal(w.sc.Body, body); err != nil {
		w.harnessErr("bad body: %v", err)
		return
	}
	rr := &restartRun{w: w, body: body, h: newHistory(w), dir: filepath.Join(w.root, "data")}
	_ = realos.MkdirAll(rr.dir, 0755)
	sos.D.OnOp = func(e *sos.JEntry) {
		w.logf("DISK n%d %s %s %s off=%d len=%d fail=%v [%s]%s", e.Node, e.Op, filepath.Base(e.Path), filepath.Base(e.Path2), e.Off, len(e.Data), e.Fail, e.Task, describeAofWrite(e))
	}
	ssched.SpawnOn(0, "restart-driver", func() {
		defer func() { rr.done = true }()
		var old map[string]*CanonKey
		var node *Node
		var stopAt int64
		for p, ph := range body.Phases {
			cfg := w.mkcfg(p+1, "", "")
			cfg.DataDir = rr.dir
			t0 := w.now().Unix()
			node = w.boot(p+1, cfg)
			if !rr.waitReady(node, fmt.Sprintf("start %d", p)) {
				return
			}
			t1 := w.now().Unix()
			sleep(300 * time.Millisecond)
			if old != nil {
				var got map[string]*CanonKey
				ssched.NoPreempt(func() { got = canonSnapshot(node.sl) })
				w.logf("RECOVERED %s", canonSig(got, true))
				if !rr.compareRecovered("C07", old, got, stopAt, t0, t1, fmt.Sprintf("restart %d", p)) {
					return
				}
				w.probe("restarts_compared")
				w.res.Probes["holds_recovered"] += countHolds(got)
				rr.recovered = map[string]bool{}
				for k, ck := range got {
					for _, h := range ck.Holds {
						rr.recovered[k+"/"+h.Lid] = true
					}
				}
			}
			rr.runClients(node, p, ph.Clients)
			rr.settle(node, ph.SettleMs)
			if w.res.HarnessErr != "" {
				return
			}
			rr.snapAt = w.now().Unix()
			ssched.NoPreempt(func() { old = canonSnapshot(node.sl) })
			w.logf("BEFORE-STOP %s", canonSig(old, true))
			rr.checkPersistFlags(node, old, w.now().Unix())
			rr.stop(node, ph.Graceful)
			stopAt = w.now().Unix()
			if ph.OutageS > 0 {
				w.fault("outage")
				sleep(time.Duration(ph.OutageS) * time.Second)
			}
		}
		// final restart to compare the last phase
		cfg := w.mkcfg(len(body.Phases)+1, "", "")
		cfg.DataDir = rr.dir
		t0 := w.now().Unix()
		node = w.boot(len(body.Phases)+1, cfg)
		if !rr.waitReady(node, "final start") {
			return
		}
		t1 := w.now().Unix()
		sleep(300 * time.Millisecond)
		var got map[string]*CanonKey
		ssched.NoPreempt(func() { got = canonSnapshot(node.sl) })
		w.logf("RECOVERED %s", canonSig(got, true))
		rr.compareRecovered("C07", old, got, stopAt, t0, t1, "final restart")
		w.probe("restarts_compared")
		w.res.Probes["holds_recovered"] += countHolds(got)
	})
	end := w.S.Loop(func() bool {
		if len(w.S.Panics) > 0 {
			p := w.S.Panics[0]
			w.violate(w.sc.Prop, "server_crash@"+panicSite(p.Stack), "a server goroutine panicked: %s [task %s]", p.Value, p.Task)
			return true
		}
		return rr.done && w.S.ReadyLen() == 0 || len(w.res.Violations) > 0
	}, time.Duration(w.sc.MaxSimS)*time.Second)
	w.res.LoopEnd = end
	if end != "done" && w.res.HarnessErr == "" && len(w.res.Violations) == 0 {
		w.harnessErr("restart run did not finish: loop ended with %q", end)
	}
	w.res.Nontrivial = w.res.Probes["holds_recovered"] > 0
	w.res.Faults["disk_writes"] = sos.D.Stats.Writes
}

// describeAofWrite renders the log records in one journalled write (trace only).
func describeAofWrite(e *sos.JEntry) string {
	if e.Op != "write" || strings.HasSuffix(e.Path, ".dat") || len(e.Data)%64 != 0 || len(e.Data) == 0 {
		return ""
	}
	var b strings.Builder
	for i := 0; i+64 <= len(e.Data); i += 64 {
		al := NewAofLock()
		copy(al.buf, e.Data[i:i+64])
		if al.Decode() != nil {
			continue
		}
		fmt.Fprintf(&b, " {cmd=%d db=%d key=%d lid=%d flag=0x%x aofflag=0x%x ex=%d/0x%x cnt=%d rc=%d id=%d.%d t=%d}", al.CommandType, al.DbId, al.LockKey[1], al.LockId[1], al.Flag, al.AofFlag,
			al.ExpriedTime, al.ExpriedFlag, al.Count, al.Rcount, al.AofIndex, al.AofOffset, al.CommandTime)
	}
	return b.String()
}

func countHolds(m map[string]*CanonKey) int {
	n := 0
	for _, ck := range m {
		n += len(ck.Holds)
	}
	return n
}

func init() {
	kinds["restart"] = &kindFn{gen: genRestart, run: runRestart}
	propKinds["C07"] = append(propKinds["C07"], struct {
		Kind   string
		Weight int
	}{"restart", 10})
}
